package main

import (
	"bytes"
	"context"
	"encoding/json"
	"fmt"
	"os"
	osexec "os/exec"
	"path/filepath"
	"regexp"
	"strconv"
	"strings"
	"time"

	"gosym/exec"
)

// replayCase is one concrete input vector for a harness (the solver's model).
type replayCase struct {
	Fn     string          `json:"fn"`
	Params map[string]int  `json:"params"`
	Inputs []exec.InputVal `json:"inputs"`
}

// replayFile is what is written under /verif/replays/<id>/ for a violation.
type replayFile struct {
	Property string       `json:"property"`
	Harness  string       `json:"harness"`
	Pkg      string       `json:"pkg"`
	Tier     string       `json:"tier"`
	Kind     string       `json:"kind"`
	Label    string       `json:"check_label"`
	Case     replayCase   `json:"case"`
	Engine   string       `json:"engine_observed"`
	Native   string       `json:"native_observed"`
	Notes    []string     `json:"notes,omitempty"`
	RepoHead string       `json:"repo_head"`
}

type nativeOutcome struct {
	Outcome string // "ok", "check-failed <label>", "panic ...", "assume-failed", "inputs-exhausted", "timeout", "crash ...", "build-failed ..."
	Reached []string
}

var harnessFnRe = regexp.MustCompile(`(?m)^func (H[A-Za-z0-9_]*)\(\)`)

// nativeReplay compiles the harness package natively (go test -overlay, nothing is written
// into the repository) and runs the given cases; one outcome per case.
func nativeReplay(pkg string, cases []replayCase, timeout time.Duration) ([]nativeOutcome, string, error) {
	info := pkgTable[pkg]
	tmp, err := os.MkdirTemp("", "vreplay")
	if err != nil {
		return nil, "", err
	}
	defer os.RemoveAll(tmp)
	dir := filepath.Join(repoRoot(), info.Dir)
	pkgName := pkg
	repl := map[string]string{}
	var fns []string
	for _, f := range harnessFiles(pkg) {
		repl[filepath.Join(dir, "zz_verif_"+filepath.Base(f))] = f
		b, _ := os.ReadFile(f)
		for _, m := range harnessFnRe.FindAllSubmatch(b, -1) {
			fns = append(fns, string(m[1]))
		}
	}
	api := filepath.Join(tmp, "api_native.go")
	os.WriteFile(api, apiSource("native", pkgName), 0o644)
	repl[filepath.Join(dir, "zz_verif_api.go")] = api
	var reg bytes.Buffer
	reg.Write(apiSource("replay_test", pkgName))
	reg.WriteString("\nvar vrHarnesses = map[string]func(){\n")
	for _, f := range fns {
		fmt.Fprintf(&reg, "\t%q: %s,\n", f, f)
	}
	reg.WriteString("}\n")
	tf := filepath.Join(tmp, "replay_test.go")
	os.WriteFile(tf, reg.Bytes(), 0o644)
	repl[filepath.Join(dir, "zz_verif_replay_test.go")] = tf
	ovb, _ := json.Marshal(map[string]interface{}{"Replace": repl})
	ovf := filepath.Join(tmp, "overlay.json")
	os.WriteFile(ovf, ovb, 0o644)
	cf := filepath.Join(tmp, "cases.json")
	cb, _ := json.Marshal(cases)
	os.WriteFile(cf, cb, 0o644)

	ctx, cancel := context.WithTimeout(context.Background(), timeout+90*time.Second)
	defer cancel()
	pat := "./" + info.Dir
	cmd := osexec.CommandContext(ctx, "go", "test", "-vet=off", "-count=1", "-run", "^TestVerifReplay$", "-v",
		"-timeout", fmt.Sprintf("%ds", int(timeout.Seconds())), "-overlay", ovf, pat)
	cmd.Dir = repoRoot()
	cmd.Env = append(os.Environ(), "VERIF_REPLAY="+cf, "GOFLAGS=-mod=mod", "GOPROXY=off", "GOSUMDB=off", "GOTOOLCHAIN=local")
	outb, runErr := cmd.CombinedOutput()
	out := string(outb)
	res := make([]nativeOutcome, len(cases))
	seen := 0
	for _, line := range strings.Split(out, "\n") {
		if strings.HasPrefix(line, "VERIF-CASE ") {
			parts := strings.SplitN(line[len("VERIF-CASE "):], " ", 2)
			i, _ := strconv.Atoi(parts[0])
			if i < len(res) && len(parts) == 2 {
				res[i].Outcome = parts[1]
				seen = i + 1
			}
		} else if strings.HasPrefix(line, "VERIF-REACHED ") {
			parts := strings.SplitN(line[len("VERIF-REACHED "):], " ", 2)
			i, _ := strconv.Atoi(parts[0])
			if i < len(res) && len(parts) == 2 && parts[1] != "" {
				res[i].Reached = strings.Split(parts[1], "|")
			}
		}
	}
	if runErr != nil && seen < len(cases) {
		// the process died while running case `seen`
		why := "crash"
		switch {
		case strings.Contains(out, "[build failed]") || strings.Contains(out, "[setup failed]"):
			return nil, out, fmt.Errorf("native build of the harness failed")
		case strings.Contains(out, "stack overflow") || strings.Contains(out, "goroutine stack exceeds"):
			why = "crash fatal: stack overflow"
		case strings.Contains(out, "test timed out") || ctx.Err() != nil:
			why = "timeout"
		case strings.Contains(out, "fatal error:"):
			i := strings.Index(out, "fatal error:")
			why = "crash " + firstLine(out[i:])
		case strings.Contains(out, "panic:"):
			i := strings.Index(out, "panic:")
			why = "crash " + firstLine(out[i:])
		}
		res[seen].Outcome = why
		for j := seen + 1; j < len(res); j++ {
			res[j].Outcome = "not-run"
		}
	}
	return res, out, nil
}

func firstLine(s string) string {
	if i := strings.IndexByte(s, '\n'); i >= 0 {
		s = s[:i]
	}
	if len(s) > 200 {
		s = s[:200]
	}
	return s
}

func repoHead() string {
	out, err := osexec.Command("git", "-C", repoRoot(), "rev-parse", "--short", "HEAD").Output()
	if err != nil {
		return "unknown"
	}
	return strings.TrimSpace(string(out))
}

// reproduces decides whether the native outcome confirms the engine's finding.
func reproduces(f exec.Finding, o nativeOutcome) bool {
	// The native run of the harness against the real build is the ground truth: any failed
	// assertion, panic, crash or hang on the solver's input is a violation on the real code,
	// even when it is an earlier assertion than the one the engine named (natively the first
	// failing check stops the run; the engine continues past a violated check).
	switch {
	case strings.HasPrefix(o.Outcome, "check-failed"), strings.HasPrefix(o.Outcome, "panic"), strings.HasPrefix(o.Outcome, "crash"), o.Outcome == "timeout":
		return true
	}
	return false
}
