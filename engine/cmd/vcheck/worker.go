package main

import (
	"bufio"
	"encoding/json"
	"fmt"
	"os"
	"path/filepath"
	"runtime/debug"
	"sort"
	"strings"

	"gosym/exec"
)

// pkgInfo describes where a harness package lives in the repository.
type pkgInfo struct {
	Import string
	Dir    string // relative to the repository root
}

var pkgTable = map[string]pkgInfo{
	"yang":   {"github.com/openconfig/goyang/pkg/yang", "pkg/yang"},
	"indent": {"github.com/openconfig/goyang/pkg/indent", "pkg/indent"},
	"main":   {"github.com/openconfig/goyang", "."},
}

func repoRoot() string {
	if r := os.Getenv("VERIF_REPO"); r != "" {
		return r
	}
	return "/repo"
}

func verifRoot() string {
	if r := os.Getenv("VERIF_ROOT"); r != "" {
		return r
	}
	return "/verif"
}

// harnessFiles returns the harness sources of a package (sorted).
func harnessFiles(pkg string) []string {
	fs, _ := filepath.Glob(filepath.Join(verifRoot(), "harness", pkg, "*.go"))
	sort.Strings(fs)
	return fs
}

// apiSource instantiates an API template for a package.
func apiSource(kind, pkg string) []byte {
	b, err := os.ReadFile(filepath.Join(verifRoot(), "harness", "api_"+kind+".go.txt"))
	if err != nil {
		panic(err)
	}
	return []byte(strings.Replace(string(b), "package PKG", "package "+pkg, 1))
}

// engineOverlay builds the go/packages overlay: harness files + body-less API declarations.
func engineOverlay(pkg string) map[string][]byte {
	info := pkgTable[pkg]
	ov := map[string][]byte{}
	dir := filepath.Join(repoRoot(), info.Dir)
	for _, f := range harnessFiles(pkg) {
		b, err := os.ReadFile(f)
		if err != nil {
			panic(err)
		}
		ov[filepath.Join(dir, "zz_verif_"+filepath.Base(f))] = b
	}
	ov[filepath.Join(dir, "zz_verif_api.go")] = apiSource("sym", pkg)
	return ov
}

func loadSession(pkg string) (*exec.Session, error) {
	info, ok := pkgTable[pkg]
	if !ok {
		return nil, fmt.Errorf("unknown harness package %q", pkg)
	}
	pat := "./" + info.Dir
	if info.Dir == "." {
		pat = "."
	}
	return exec.Load(repoRoot(), engineOverlay(pkg), []string{pat}, info.Import)
}

type workerHello struct {
	Ready       bool     `json:"ready"`
	LoadMs      int64    `json:"load_ms"`
	Error       string   `json:"error,omitempty"`
	InitSkipped []string `json:"init_skipped,omitempty"`
}

// workerMain: load once, then serve jobs (one JSON object per line) until stdin closes.
func workerMain(pkg string) {
	debug.SetGCPercent(300) // the loaded SSA program is a large, static heap: collect less often
	out := bufio.NewWriter(os.Stdout)
	enc := json.NewEncoder(out)
	s, err := loadSession(pkg)
	if err != nil {
		enc.Encode(workerHello{Error: err.Error()})
		out.Flush()
		os.Exit(3)
	}
	defer s.Close()
	enc.Encode(workerHello{Ready: true, LoadMs: s.LoadTime.Milliseconds(), InitSkipped: s.InitSkipped})
	out.Flush()
	in := bufio.NewReaderSize(os.Stdin, 1<<20)
	for {
		line, err := in.ReadBytes('\n')
		if len(line) > 1 {
			var job exec.Job
			if e := json.Unmarshal(line, &job); e != nil {
				enc.Encode(exec.JobResult{Error: "bad job: " + e.Error()})
			} else {
				enc.Encode(s.RunJob(job))
			}
			out.Flush()
		}
		if err != nil {
			return
		}
	}
}
