package main

// The property table: which harness functions decide which property, under which bounds.
// Bounds registered here have run conclusively on the unchanged tree (DESIGN section 5).

func properties() []Property {
	return []Property{
		{
			ID: "C15",
			Harnesses: []Harness{
				{Name: "H15a", Pkg: "yang", Fn: "H15a", Quick: map[string]int{"fdlo": 0, "fdhi": 18}, Reach: []string{"compared"}, MaxSteps: 2000000, TimeoutMs: 60000,
					Bound:   "every pair of numbers of the domain: 64-bit magnitude x sign for integers, signed 64-bit mantissa for decimal64, every pair (fd1, fd2) in [0,18]^2 (full width, no size bound)",
					Outside: "fraction-digits above 18 (not a YANG number)"},
				{Name: "H15b", Pkg: "yang", Fn: "H15b", Reach: []string{"int-ok", "int-err"}, MaxSteps: 2000000,
					Bound: "every 64-bit magnitude x sign; every decimal64 value for the decimal case", Outside: "nothing within Number's representation"},
				{Name: "H15e", Pkg: "yang", Fn: "H15e", Reach: []string{"done"}, MaxSteps: 2000000,
					Bound: "every int64 and every uint64", Outside: "FromFloat (floating point; in no property)"},
				{Name: "H15c", Pkg: "yang", Fn: "H15c", Quick: map[string]int{"fdlo": 0, "fdhi": 18}, Reach: []string{"parsed-back"}, MaxSteps: 5000000, TimeoutMs: 60000,
					Bound:   "every number of the domain at every fraction-digits 0..18 (all digit counts 1..20)",
					Outside: "strconv.FormatUint is replaced by the engine's digit-chain intrinsic (its real body indexes a 200-byte table); ParseUint/ParseInt run from their real bodies"},
				{Name: "H15d-int", Pkg: "yang", Fn: "H15d", Quick: map[string]int{"ialo": 1, "iahi": 21, "fblo": 0, "fbhi": 0, "asint": 1, "fdlo": 1, "fdhi": 1},
					Reach: []string{"int-accepted", "int-rejected"}, MaxSteps: 5000000, TimeoutMs: 60000,
					Bound: "every integer literal [sign] digits with 1..21 digits, every digit symbolic, no superfluous leading zero", Outside: "longer literals; non-decimal spellings (0x, 0o, _), which the quantifier excludes"},
				{Name: "H15d-dec", Pkg: "yang", Fn: "H15d", Quick: map[string]int{"ialo": 1, "iahi": 20, "fblo": 0, "fbhi": 2, "asint": 0, "fdlo": 1, "fdhi": 2},
					Thorough: map[string]int{"ialo": 1, "iahi": 20, "fblo": 0, "fbhi": 19, "asint": 0, "fdlo": 1, "fdhi": 18},
					Reach:    []string{"dec-accepted", "dec-rejected"}, MaxSteps: 5000000, TimeoutMs: 60000,
					Bound:    "every decimal literal [sign] digits [. digits] with ia integer digits, fb fraction digits (0 = no dot), requested precision fd, for the ranges given in params; every digit symbolic",
					Outside:  "shapes outside the parameter ranges"},
				{Name: "H15d-hifd", Pkg: "yang", Fn: "H15d", Quick: map[string]int{"ialo": 1, "iahi": 3, "fblo": 15, "fbhi": 19, "asint": 0, "fdlo": 16, "fdhi": 18},
					Reach: []string{"dec-accepted", "dec-rejected"}, MaxSteps: 5000000, TimeoutMs: 60000,
					Bound: "decimal literals with 1..3 integer digits, 15..19 fraction digits, requested precision 16..18", Outside: "shapes outside the parameter ranges"},
				{Name: "H15d-long", Pkg: "yang", Fn: "H15d", Quick: map[string]int{"ialo": 1, "iahi": 1, "fblo": 254, "fbhi": 258, "asint": 0, "fdlo": 1, "fdhi": 18},
					Reach: []string{"dec-rejected"}, MaxSteps: 20000000, TimeoutMs: 60000,
					Bound: "fraction parts of 254..258 digits (the code narrows the fraction length to 8 bits: bound derived from the code), every requested precision 1..18", Outside: "other lengths above 19"},
			},
			Assumptions: []string{"strconv.FormatUint replaced by a digit-chain intrinsic (symDecimal) when its argument is symbolic"},
		},
		{
			ID: "C20",
			Harnesses: []Harness{
				{Name: "H20a", Pkg: "indent", Fn: "H20a", Quick: map[string]int{"n": 4, "p": 2}, Thorough: map[string]int{"n": 6, "p": 2},
					Reach: []string{"compared"}, MaxSteps: 2000000,
					Bound:   "every prefix of p bytes (all 256 values each, line breaks included) x every text of n bytes x every division into three successive Write calls (empty chunks included)",
					Outside: "texts longer than n bytes, prefixes longer than p bytes, more than three Write calls"},
				{Name: "H20e", Pkg: "indent", Fn: "H20e", Quick: map[string]int{"n": 3}, Thorough: map[string]int{"n": 5}, Reach: []string{"done"}, MaxSteps: 2000000,
					Bound: "empty prefix, every text of n bytes", Outside: "longer texts"},
				{Name: "H20b", Pkg: "indent", Fn: "H20b", Quick: map[string]int{"n": 4, "p": 2}, Thorough: map[string]int{"n": 5, "p": 2},
					Reach: []string{"short-write"}, MaxSteps: 2000000,
					Bound:   "every prefix of p bytes x every text of n bytes x every cut into a first fully accepted Write and a second Write x every position at which the underlying writer stops short during the second Write",
					Outside: "underlying writers that violate the io.Writer contract (n < len(p) with nil error); behaviour of further writes after a failed one; longer texts"},
			},
			Assumptions: []string{"the underlying writer obeys the io.Writer contract (harness stubs h20Rec, h20Lim)"},
		},
	}
}
