package main

// The property table: which harness functions decide which property, under which bounds.
// Bounds registered here have run conclusively on the unchanged tree (DESIGN section 5).

func properties() []Property {
	return []Property{
		{
			ID: "C20",
			Harnesses: []Harness{
				{Name: "H20a", Pkg: "indent", Fn: "H20a", Quick: map[string]int{"n": 4, "p": 2}, Thorough: map[string]int{"n": 6, "p": 2},
					Reach: []string{"compared"}, MaxSteps: 2000000,
					Bound:   "every prefix of p bytes (all 256 values each, line breaks included) x every text of n bytes x every division into three successive Write calls (empty chunks included)",
					Outside: "texts longer than n bytes, prefixes longer than p bytes, more than three Write calls"},
				{Name: "H20e", Pkg: "indent", Fn: "H20e", Quick: map[string]int{"n": 3}, Thorough: map[string]int{"n": 5}, Reach: []string{"done"}, MaxSteps: 2000000,
					Bound: "empty prefix, every text of n bytes", Outside: "longer texts"},
				{Name: "H20b", Pkg: "indent", Fn: "H20b", Quick: map[string]int{"n": 4, "p": 2}, Thorough: map[string]int{"n": 5, "p": 2},
					Reach: []string{"short-write"}, MaxSteps: 2000000,
					Bound:   "every prefix of p bytes x every text of n bytes x every cut into a first fully accepted Write and a second Write x every position at which the underlying writer stops short during the second Write",
					Outside: "underlying writers that violate the io.Writer contract (n < len(p) with nil error); behaviour of further writes after a failed one; longer texts"},
			},
			Assumptions: []string{"the underlying writer obeys the io.Writer contract (harness stubs h20Rec, h20Lim)"},
		},
	}
}
