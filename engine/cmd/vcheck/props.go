package main

// The property table: which harness functions decide which property, under which bounds.
// Bounds registered here have run conclusively on the unchanged tree (DESIGN section 5).

const numberLess = "(github.com/openconfig/goyang/pkg/yang.Number).Less"

var h10Redirects = map[string]string{"ParseInt": "h10StubInt", "ParseDecimal": "h10StubDec"}

func properties() []Property {
	return []Property{
		{
			ID: "C14",
			Harnesses: []Harness{
				{Name: "H14a-enum", Pkg: "yang", Fn: "H14a", Quick: map[string]int{"m": 3, "bits": 0}, Thorough: map[string]int{"m": 4, "bits": 0},
					Reach: []string{"all-accepted", "rejected"}, MaxSteps: 5000000, TimeoutMs: 60000,
					Bound: "every enumeration member sequence of length m: names over m letters (every equality pattern), every explicit/implicit mix, every explicit value a full int64", Outside: "more than m members; the text-to-int64 conversion of the value argument (C15, and H14u)"},
				{Name: "H14a-bits", Pkg: "yang", Fn: "H14a", Quick: map[string]int{"m": 3, "bits": 1}, Thorough: map[string]int{"m": 4, "bits": 1},
					Reach: []string{"all-accepted", "rejected"}, MaxSteps: 5000000, TimeoutMs: 60000,
					Bound: "every bits member sequence of length m, as above", Outside: "repeated bit positions (the property does not ask for their uniqueness; assumed away); more than m members"},
			},
		},
		{
			ID: "C15",
			Harnesses: []Harness{
				{Name: "H15a", Pkg: "yang", Fn: "H15a", Quick: map[string]int{"fdlo": 0, "fdhi": 18}, Reach: []string{"compared"}, MaxSteps: 2000000, TimeoutMs: 60000,
					Bound:   "every pair of numbers of the domain: 64-bit magnitude x sign for integers, signed 64-bit mantissa for decimal64, every pair (fd1, fd2) in [0,18]^2 (full width, no size bound)",
					Outside: "fraction-digits above 18 (not a YANG number)"},
				{Name: "H15b", Pkg: "yang", Fn: "H15b", Reach: []string{"int-ok", "int-err"}, MaxSteps: 2000000,
					Bound: "every 64-bit magnitude x sign; every decimal64 value for the decimal case", Outside: "nothing within Number's representation"},
				{Name: "H15e", Pkg: "yang", Fn: "H15e", Reach: []string{"done"}, MaxSteps: 2000000,
					Bound: "every int64 and every uint64", Outside: "FromFloat (floating point; in no property)"},
				{Name: "H15c", Pkg: "yang", Fn: "H15c", Quick: map[string]int{"fdlo": 0, "fdhi": 18}, Reach: []string{"parsed-back"}, MaxSteps: 5000000, TimeoutMs: 60000,
					Bound:   "every number of the domain at every fraction-digits 0..18 (all digit counts 1..20)",
					Outside: "strconv.FormatUint is replaced by the engine's digit-chain intrinsic (its real body indexes a 200-byte table); ParseUint/ParseInt run from their real bodies"},
				{Name: "H15d-int", Pkg: "yang", Fn: "H15d", Quick: map[string]int{"ialo": 1, "iahi": 21, "fblo": 0, "fbhi": 0, "asint": 1, "fdlo": 1, "fdhi": 1},
					Reach: []string{"int-accepted", "int-rejected"}, MaxSteps: 5000000, TimeoutMs: 60000,
					Bound: "every integer literal [sign] digits with 1..21 digits, every digit symbolic, no superfluous leading zero", Outside: "longer literals; non-decimal spellings (0x, 0o, _), which the quantifier excludes"},
				{Name: "H15d-dec", Pkg: "yang", Fn: "H15d", Quick: map[string]int{"ialo": 1, "iahi": 20, "fblo": 0, "fbhi": 2, "asint": 0, "fdlo": 1, "fdhi": 2},
					Thorough: map[string]int{"ialo": 1, "iahi": 20, "fblo": 0, "fbhi": 19, "asint": 0, "fdlo": 1, "fdhi": 18},
					Reach:    []string{"dec-accepted", "dec-rejected"}, MaxSteps: 5000000, TimeoutMs: 60000,
					Bound:    "every decimal literal [sign] digits [. digits] with ia integer digits, fb fraction digits (0 = no dot), requested precision fd, for the ranges given in params; every digit symbolic",
					Outside:  "shapes outside the parameter ranges"},
				{Name: "H15d-hifd", Pkg: "yang", Fn: "H15d", Quick: map[string]int{"ialo": 1, "iahi": 3, "fblo": 15, "fbhi": 19, "asint": 0, "fdlo": 16, "fdhi": 18},
					Reach: []string{"dec-accepted", "dec-rejected"}, MaxSteps: 5000000, TimeoutMs: 60000,
					Bound: "decimal literals with 1..3 integer digits, 15..19 fraction digits, requested precision 16..18", Outside: "shapes outside the parameter ranges"},
				{Name: "H15d-long", Pkg: "yang", Fn: "H15d", Quick: map[string]int{"ialo": 1, "iahi": 1, "fblo": 254, "fbhi": 258, "asint": 0, "fdlo": 1, "fdhi": 18},
					Reach: []string{"dec-rejected"}, MaxSteps: 20000000, TimeoutMs: 60000,
					Bound: "fraction parts of 254..258 digits (the code narrows the fraction length to 8 bits: bound derived from the code), every requested precision 1..18", Outside: "other lengths above 19"},
			},
			Assumptions: []string{"strconv.FormatUint replaced by a digit-chain intrinsic (symDecimal) when its argument is symbolic"},
		},
		{
			ID: "C10",
			Harnesses: []Harness{
				{Name: "H10a-int", Pkg: "yang", Fn: "H10a", Quick: map[string]int{"k": 2, "p": 2, "mm": 1, "fdlo": 0, "fdhi": 0},
					Thorough:  map[string]int{"k": 3, "p": 2, "mm": 1, "fdlo": 0, "fdhi": 0},
					Redirects: h10Redirects, Summaries: []string{numberLess}, Reach: []string{"accepted", "rejected"}, MaxSteps: 50000000, TimeoutMs: 30000,
					Bound:     "integer ranges and lengths: every restriction skeleton of k parts (each a single value or a pair; every endpoint a number, min or max) x every valid parent set of p parts; all endpoints arbitrary 64-bit magnitudes with sign; one universally quantified member x",
					Outside:   "more than k written parts or p parent parts; the textual number syntax (decided by C15: the number parsers are stubbed by arbitrary Numbers here)"},
				{Name: "H10a-dec-k1", Pkg: "yang", Fn: "H10a", Quick: map[string]int{"k": 1, "p": 2, "mm": 1, "fdlo": 1, "fdhi": 18},
					Redirects: h10Redirects, Summaries: []string{numberLess}, Reach: []string{"accepted", "rejected"}, MaxSteps: 50000000, TimeoutMs: 30000,
					Bound:     "decimal64 ranges at every fraction-digits 1..18: every one-part restriction (single value or pair; endpoints number/min/max) x every valid parent of 2 parts; endpoints arbitrary signed 64-bit mantissas",
					Outside:   "as H10a-int"},
				{Name: "H10a-dec-k2", Pkg: "yang", Fn: "H10a", Quick: map[string]int{"k": 2, "p": 1, "mm": 0, "fdlo": 2, "fdhi": 2},
					Thorough:  map[string]int{"k": 2, "p": 1, "mm": 1, "fdlo": 1, "fdhi": 2},
					Redirects: h10Redirects, Summaries: []string{numberLess}, Reach: []string{"accepted", "rejected"}, MaxSteps: 50000000, TimeoutMs: 30000,
					Bound:     "decimal64 ranges at fraction-digits fdlo..fdhi: every two-part skeleton x every valid one-part parent (sorting, coalescing, overlap detection on decimals)",
					Outside:   "as H10a-int"},
				{Name: "H10a-dec-k2hi", Pkg: "yang", Fn: "H10a", Quick: map[string]int{"k": 2, "p": 1, "mm": 0, "fdlo": 18, "fdhi": 18},
					Thorough:  map[string]int{"k": 2, "p": 1, "mm": 1, "fdlo": 17, "fdhi": 18},
					Redirects: h10Redirects, Summaries: []string{numberLess}, Reach: []string{"accepted", "rejected"}, MaxSteps: 50000000, TimeoutMs: 30000,
					Bound:     "as H10a-dec-k2 at the highest precisions",
					Outside:   "as H10a-int"},
			},
			Assumptions: []string{"ParseInt/ParseDecimal are redirected (inside the C10 harness only) to a stub returning an arbitrary Number: the stub's contract 'returns the number the token denotes' is what C15 decides for the real parsers; native replay uses the real parsers on printed model values",
				"Number.Less is summarised (all its paths merged into one term per call, recomputed from its current SSA at every call)",
				"parent sets satisfy the representation invariant (valid, ascending, disjoint, non-adjacent) - the inductive hypothesis of a derivation chain; result sets are checked to satisfy it again"},
		},
		{
			ID: "C20",
			Harnesses: []Harness{
				{Name: "H20a", Pkg: "indent", Fn: "H20a", Quick: map[string]int{"n": 4, "p": 2}, Thorough: map[string]int{"n": 6, "p": 2},
					Reach: []string{"compared"}, MaxSteps: 2000000,
					Bound:   "every prefix of p bytes (all 256 values each, line breaks included) x every text of n bytes x every division into three successive Write calls (empty chunks included)",
					Outside: "texts longer than n bytes, prefixes longer than p bytes, more than three Write calls"},
				{Name: "H20e", Pkg: "indent", Fn: "H20e", Quick: map[string]int{"n": 3}, Thorough: map[string]int{"n": 5}, Reach: []string{"done"}, MaxSteps: 2000000,
					Bound: "empty prefix, every text of n bytes", Outside: "longer texts"},
				{Name: "H20b", Pkg: "indent", Fn: "H20b", Quick: map[string]int{"n": 4, "p": 2}, Thorough: map[string]int{"n": 5, "p": 2},
					Reach: []string{"short-write"}, MaxSteps: 2000000,
					Bound:   "every prefix of p bytes x every text of n bytes x every cut into a first fully accepted Write and a second Write x every position at which the underlying writer stops short during the second Write",
					Outside: "underlying writers that violate the io.Writer contract (n < len(p) with nil error); behaviour of further writes after a failed one; longer texts"},
			},
			Assumptions: []string{"the underlying writer obeys the io.Writer contract (harness stubs h20Rec, h20Lim)"},
		},
	}
}
