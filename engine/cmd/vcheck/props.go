package main

// The property table: which harness functions decide which property, under which bounds.
// Bounds registered here have run conclusively on the unchanged tree (DESIGN section 5).

const numberLess = "(github.com/openconfig/goyang/pkg/yang.Number).Less"

const compBound = "composition universe: a chain of n nested containers, every level placed by one of {inline, grouping+uses from another module, grouping using a nested grouping, augment from module a, augment from a second module b2 (chains across three modules), choice with explicit case, choice with implicit case} under one of {module body, submodule body, rpc input, rpc output, notification, rpc input not written, rpc output not written}, with config true/false/absent at every level of a data tree, and next to the last level a leaf, leaf-list or list with its own config true/false/absent"

var errSortStub = map[string]string{"errorSort": "hErrorSortStub"}

var h10Redirects = map[string]string{"ParseInt": "h10StubInt", "ParseDecimal": "h10StubDec"}

func properties() []Property {
	return []Property{
		{
			ID: "C14",
			Harnesses: []Harness{
				{Name: "H14a-enum", Pkg: "yang", Fn: "H14a", Quick: map[string]int{"m": 3, "bits": 0}, Thorough: map[string]int{"m": 4, "bits": 0},
					Reach: []string{"all-accepted", "rejected"}, MaxSteps: 5000000, TimeoutMs: 60000,
					Bound: "every enumeration member sequence of length m: names over m letters (every equality pattern), every explicit/implicit mix, every explicit value a full int64", Outside: "more than m members; the text-to-int64 conversion of the value argument (C15, and H14u)"},
				{Name: "H14a-bits", Pkg: "yang", Fn: "H14a", Quick: map[string]int{"m": 3, "bits": 1}, Thorough: map[string]int{"m": 4, "bits": 1},
					Reach: []string{"all-accepted", "rejected"}, MaxSteps: 5000000, TimeoutMs: 60000,
					Bound: "every bits member sequence of length m, as above", Outside: "repeated bit positions (the property does not ask for their uniqueness; assumed away); more than m members"},
			},
		},
		{
			ID: "C15",
			Harnesses: []Harness{
				{Name: "H15a", Pkg: "yang", Fn: "H15a", Quick: map[string]int{"fdlo": 0, "fdhi": 18}, Reach: []string{"compared"}, MaxSteps: 2000000, TimeoutMs: 60000,
					Bound:   "every pair of numbers of the domain: 64-bit magnitude x sign for integers, signed 64-bit mantissa for decimal64, every pair (fd1, fd2) in [0,18]^2 (full width, no size bound)",
					Outside: "fraction-digits above 18 (not a YANG number)"},
				{Name: "H15b", Pkg: "yang", Fn: "H15b", Reach: []string{"int-ok", "int-err"}, MaxSteps: 2000000,
					Bound: "every 64-bit magnitude x sign; every decimal64 value for the decimal case", Outside: "nothing within Number's representation"},
				{Name: "H15e", Pkg: "yang", Fn: "H15e", Reach: []string{"done"}, MaxSteps: 2000000,
					Bound: "every int64 and every uint64", Outside: "FromFloat (floating point; in no property)"},
				{Name: "H15c", Pkg: "yang", Fn: "H15c", Quick: map[string]int{"fdlo": 0, "fdhi": 18}, Reach: []string{"parsed-back"}, MaxSteps: 5000000, TimeoutMs: 60000,
					Bound:   "every number of the domain at every fraction-digits 0..18 (all digit counts 1..20)",
					Outside: "strconv.FormatUint is replaced by the engine's digit-chain intrinsic (its real body indexes a 200-byte table); ParseUint/ParseInt run from their real bodies"},
				{Name: "H15d-int", Pkg: "yang", Fn: "H15d", Quick: map[string]int{"ialo": 1, "iahi": 21, "fblo": 0, "fbhi": 0, "asint": 1, "fdlo": 1, "fdhi": 1},
					Reach: []string{"int-accepted", "int-rejected"}, MaxSteps: 5000000, TimeoutMs: 60000,
					Bound: "every integer literal [sign] digits with 1..21 digits, every digit symbolic, no superfluous leading zero", Outside: "longer literals; non-decimal spellings (0x, 0o, _), which the quantifier excludes"},
				{Name: "H15d-dec", Pkg: "yang", Fn: "H15d", Quick: map[string]int{"ialo": 1, "iahi": 20, "fblo": 0, "fbhi": 2, "asint": 0, "fdlo": 1, "fdhi": 2},
					Thorough: map[string]int{"ialo": 1, "iahi": 20, "fblo": 0, "fbhi": 19, "asint": 0, "fdlo": 1, "fdhi": 18},
					Reach:    []string{"dec-accepted", "dec-rejected"}, MaxSteps: 5000000, TimeoutMs: 60000,
					Bound:    "every decimal literal [sign] digits [. digits] with ia integer digits, fb fraction digits (0 = no dot), requested precision fd, for the ranges given in params; every digit symbolic",
					Outside:  "shapes outside the parameter ranges"},
				{Name: "H15d-hifd", Pkg: "yang", Fn: "H15d", Quick: map[string]int{"ialo": 1, "iahi": 3, "fblo": 15, "fbhi": 19, "asint": 0, "fdlo": 16, "fdhi": 18},
					Reach: []string{"dec-accepted", "dec-rejected"}, MaxSteps: 5000000, TimeoutMs: 60000,
					Bound: "decimal literals with 1..3 integer digits, 15..19 fraction digits, requested precision 16..18", Outside: "shapes outside the parameter ranges"},
				{Name: "H15d-long", Pkg: "yang", Fn: "H15d", Quick: map[string]int{"ialo": 1, "iahi": 1, "fblo": 254, "fbhi": 258, "asint": 0, "fdlo": 1, "fdhi": 18},
					Reach: []string{"dec-rejected"}, MaxSteps: 20000000, TimeoutMs: 60000,
					Bound: "fraction parts of 254..258 digits (the code narrows the fraction length to 8 bits: bound derived from the code), every requested precision 1..18", Outside: "other lengths above 19"},
			},
			Assumptions: []string{"strconv.FormatUint replaced by a digit-chain intrinsic (symDecimal) when its argument is symbolic"},
		},
		{
			ID: "C02",
			Harnesses: []Harness{
				{Name: "H02raw", Pkg: "yang", Fn: "H02raw", Quick: map[string]int{"n": 4, "errpos": 1}, Thorough: map[string]int{"n": 5, "errpos": 1},
					Reach: []string{"accepted", "rejected"}, MaxSteps: 20000000, TimeoutMs: 30000,
					Bound: "every ASCII text of exactly n bytes (all 128^n, explored as byte classes)", Outside: "longer texts; non-ASCII bytes at symbolic positions (multi-byte characters occur as fixed pieces in H02str/H16a); the four ambiguous constructs of the quantifier (paths counted under reach outside-claim)"},
				{Name: "H02raw3", Pkg: "yang", Fn: "H02raw", Quick: map[string]int{"n": 3, "errpos": 1}, Reach: []string{"accepted", "rejected"}, MaxSteps: 20000000, TimeoutMs: 30000,
					Bound: "every ASCII text of exactly 3 bytes", Outside: "as H02raw"},
				{Name: "H02raw2", Pkg: "yang", Fn: "H02raw", Quick: map[string]int{"n": 2, "errpos": 1}, Reach: []string{"accepted", "rejected"}, MaxSteps: 20000000, TimeoutMs: 30000,
					Bound: "every ASCII text of 2 bytes", Outside: "as H02raw"},
				{Name: "H02str", Pkg: "yang", Fn: "H02str", Quick: map[string]int{"m": 2}, Thorough: map[string]int{"m": 4},
					Reach: []string{"accepted", "rejected"}, MaxSteps: 20000000, TimeoutMs: 30000,
					Bound: "PRE k SEP \"BODY\" TAIL: 15 line prefixes before the quote (blanks, tabs, comments, single-quoted pieces, multi-byte characters, line breaks) x keyword k/pattern x 2 separators x 3 tails x every BODY of m bytes over {blank, tab, LF, backslash, n, x, quote}", Outside: "longer bodies; other prefixes"},
				{Name: "H02cat", Pkg: "yang", Fn: "H02cat", Quick: map[string]int{"t": 3}, Thorough: map[string]int{"t": 4},
					Reach: []string{"accepted", "rejected"}, MaxSteps: 20000000, TimeoutMs: 30000,
					Bound: "every sequence of t tokens over {a, b, \"s\", 't', +, ;, {, }, \"\", pattern} with each boundary spelled as nothing, blank, comment or line break", Outside: "longer sequences"},
				{Name: "H02nest", Pkg: "yang", Fn: "H02nest", Quick: map[string]int{"t": 6}, Thorough: map[string]int{"t": 8},
					Reach: []string{"accepted", "rejected"}, MaxSteps: 20000000, TimeoutMs: 30000,
					Bound: "every sequence of t tokens over {a, b, ;, {, }, \"q\"}", Outside: "longer sequences"},
				{Name: "H02pat", Pkg: "yang", Fn: "H02pat", Reach: []string{"accepted", "rejected"}, MaxSteps: 20000000, TimeoutMs: 30000,
					Bound: "keyword in {pattern, patter, patterns, k} x every ASCII escape character x 5 positions of the string (argument, concatenated pieces, substatement argument, block)", Outside: "other positions"},
			},
			Assumptions: []string{"symbolic bytes are assumed ASCII (the executor's Int-mode terms do not model UTF-8 decoding masks on symbolic bytes); multi-byte characters occur as concrete pieces",
				"reference reader c02ref.go is the oracle (validated natively against the unchanged implementation over 3.5 M texts before the engine existed, DESIGN App. E)"},
		},
		{
			ID: "C16",
			Harnesses: []Harness{
				{Name: "H16a", Pkg: "yang", Fn: "H16a", Quick: map[string]int{"n": 2}, Thorough: map[string]int{"n": 3},
					Reach: []string{"accepted"}, MaxSteps: 20000000, TimeoutMs: 30000,
					Bound: "every layout of n pieces over {blank, tab, LF, CR LF, statement with a 2-byte character, // comment, multi-line /* */ comment, comment with a 3-byte character, statement with a multi-line single- or double-quoted argument, block opener, block closer} with symbolic one-letter contents, followed by k; and an optional nested block: positions of all statements", Outside: "longer layouts"},
				{Name: "H16b", Pkg: "yang", Fn: "H16b", Quick: map[string]int{"n": 1}, Thorough: map[string]int{"n": 2},
					Reach: []string{"rejected"}, MaxSteps: 20000000, TimeoutMs: 30000,
					Bound: "a layout of n pieces followed by one fault of 9 kinds (unexpected }, missing ;/{ with the next token at 4 distances, quoted keyword in 3 spellings, invalid escape with every ASCII escape character incl. LF on the first or a continuation line, unterminated \", ', /*, missing ; before }): first error line names the offending token, backslash or opener", Outside: "texts with more than one fault; the end-of-input reports (as quantified)"},
				{Name: "H16raw", Pkg: "yang", Fn: "H02raw", Quick: map[string]int{"n": 3, "errpos": 1}, Thorough: map[string]int{"n": 4, "errpos": 1}, Reach: []string{"accepted", "rejected"}, MaxSteps: 20000000, TimeoutMs: 30000,
					Bound: "every ASCII text of n bytes: statement positions on acceptance; on rejection some error line names the first fault's position", Outside: "as H02raw"},
			},
			Assumptions: []string{"as C02; the third sentence of the property (positions in build/resolve errors) is decided by harness H16c when registered"},
		},
		{
			ID: "C03",
			Harnesses: []Harness{
				{Name: "H03a", Pkg: "yang", Fn: "H03a", Quick: map[string]int{"mode": 0, "arg": 2}, Thorough: map[string]int{"mode": 1, "arg": 2},
					Reach: []string{"built", "rejected"}, MaxSteps: 20000000, TimeoutMs: 30000,
					Bound: "one statement level: parent keyword over every keyword of the library's table (read from the tables built from the struct tags of the current source) x every mandatory substatement present or one omitted x first child over the whole vocabulary plus unknown, prefixed and meta names x second child over {none, the same keyword again, unknown, two prefixed} (thorough: the whole vocabulary); argument strings of symbolic bytes", Outside: "more than two optional substatements per level; deeper trees (the mirror walk recurses two levels into the built substatements)"},
				{Name: "H03top", Pkg: "yang", Fn: "H03top", Reach: []string{"accepted", "rejected"}, MaxSteps: 20000000, TimeoutMs: 30000,
					Bound: "top-level keyword over the whole vocabulary plus submodule, unknown, prefixed, meta and empty names, with and without the mandatory substatements", Outside: "-"},
			},
		},
		{
			ID: "C11",
			Harnesses: []Harness{
				{Name: "H11-2", Pkg: "yang", Fn: "H11", Quick: map[string]int{"n": 2, "bases": 1, "place": 0, "spell": 4}, Thorough: map[string]int{"n": 2, "bases": 2, "place": 0, "spell": 4}, Redirects: errSortStub, MaxPaths: 400000,
					Reach: []string{"accepted", "rejected"}, MaxSteps: 50000000, TimeoutMs: 30000,
					Bound: "2 identities placed freely in {module m1, its submodule s1, module m2 importing m1}, symbolic one-letter names (every equality pattern), 0..1 (thorough 0..2) base statements each, every base spelled unprefixed / own prefix / import prefix / unknown prefix with a symbolic name (incl. an undefined one); one typedef'd identityref leaf", Outside: "more identities; mutual imports"},
				{Name: "H11-3", Pkg: "yang", Fn: "H11", Quick: map[string]int{"n": 3, "bases": 1, "place": 1, "spell": 2}, Thorough: map[string]int{"n": 3, "bases": 2, "place": 1, "spell": 2}, Redirects: errSortStub, MaxPaths: 400000,
					Reach: []string{"accepted", "rejected"}, MaxSteps: 50000000, TimeoutMs: 30000,
					Bound: "3 identities in 6 placements over {m1, s1, m2}, symbolic names, 0..1 (thorough 0..2) bases each spelled unprefixed or with a foreign prefix: chains, diamonds and cycles of length up to 3 across modules and the submodule", Outside: "more identities; other placements"},
			},
			Assumptions: []string{"errorSort is replaced (engine side) by a pass-through stub: the harness only asks whether an error was reported; error order is C05's subject",
				"identity names are unique within a module and its submodules (assumed)"},
		},
		{
			ID: "C12",
			Harnesses: []Harness{
				{Name: "H12", Pkg: "yang", Fn: "H12", Quick: map[string]int{"n": 2}, Thorough: map[string]int{"n": 3}, Redirects: errSortStub,
					Reach: []string{"processed"}, MaxSteps: 100000000, TimeoutMs: 30000,
					Bound: compBound, Outside: "deeper chains; sibling subtrees; config statements inside rpc/action/notification (as quantified); the read-only-ness of implicit case nodes (not written in the source)"},
			},
			Assumptions: []string{"errorSort replaced by a pass-through stub (engine side)"},
		},
		{
			ID: "C17",
			Harnesses: []Harness{
				{Name: "H17", Pkg: "yang", Fn: "H17", Quick: map[string]int{"n": 1}, Thorough: map[string]int{"n": 2}, Redirects: errSortStub,
					Reach: []string{"processed"}, MaxSteps: 200000000, TimeoutMs: 30000,
					Bound: compBound + "; every (start node, target node) pair: absolute prefixed spelling from every start whose defining module imports the tree's module, relative spelling with .. steps within a tree, and every absolute path with one step replaced by a name (zz + symbolic letter) that no node has", Outside: "start nodes defined in a module that does not import the target tree's module (the property's 'any module that imports the needed prefixes')"},
				{Name: "H17comp", Pkg: "yang", Fn: "H17comp", Redirects: errSortStub, Reach: []string{"processed"}, MaxSteps: 200000000, TimeoutMs: 30000,
					Bound: "the composite schema (4 modules + submodule: groupings in list/rpc/notification/augment, chained and submodule augments, implicit cases, action, rpc input/output not written in the source; 65 nodes): every start x every target x absolute/relative/one bad step", Outside: "other schemas"},
			},
			Assumptions: []string{"errorSort replaced by a pass-through stub (engine side)"},
		},
		{
			ID: "C07",
			Harnesses: []Harness{
				{Name: "H07", Pkg: "yang", Fn: "H07", Quick: map[string]int{"n": 2}, Thorough: map[string]int{"n": 3}, Redirects: errSortStub,
					Reach: []string{"processed"}, MaxSteps: 200000000, TimeoutMs: 30000,
					Bound: compBound + "; restricted to schemas with at least one augment; second run of the same sources on a fresh set in one of three other load orders", Outside: "augment targets through implicit cases and uses-augment (as quantified); more than two augmenting modules; all 120 load orders (C05 explores map orders)"},
				{Name: "H07err", Pkg: "yang", Fn: "H07err", Redirects: errSortStub, Reach: []string{"accepted", "rejected"}, MaxSteps: 50000000, TimeoutMs: 30000,
					Bound: "two augmenting modules, each adding one leaf with a symbolic name over {x,y,z,w} to a symbolic target over {container holding x and y, a leaf, a missing node}; two load orders", Outside: "larger collision patterns"},
			},
			Assumptions: []string{"errorSort replaced by a pass-through stub (engine side)"},
		},
		{
			ID: "C06",
			Harnesses: []Harness{
				{Name: "H06", Pkg: "yang", Fn: "H06", Redirects: errSortStub, Reach: []string{"processed", "aimed"}, MaxSteps: 400000000, TimeoutMs: 30000,
					Bound: "grouping body drawn from {leaf with typedef'd type, with/without default} x {leaf-list with bounds, list with bound, none} x {empty container} x {choice with explicit and implicit case} x {nested uses of a sibling grouping holding an identityref, grouping scoped in a container of the grouping, none}; defined in the using module or in another module (same-named typedef and identity at both sites); used in two containers, a list and a container of a third module; compared with the body written inline; then a module aiming a default replacement, a list-attribute deviation and an augment at the first instance only (every subset), on a fresh set", Outside: "refine and uses-augment (as quantified); deeper grouping nesting"},
			},
			Assumptions: []string{"errorSort replaced by a pass-through stub (engine side)"},
		},
		{
			ID: "C04",
			Harnesses: []Harness{
				{Name: "H04comp", Pkg: "yang", Fn: "H12", Quick: map[string]int{"n": 2}, Thorough: map[string]int{"n": 3}, Redirects: errSortStub,
					Reach: []string{"processed"}, MaxSteps: 200000000, TimeoutMs: 30000,
					Bound: compBound + ": the tree walker hWF (tb.go) on every cleanly processed schema", Outside: "deeper chains"},
				{Name: "H04late", Pkg: "yang", Fn: "H07err", Redirects: errSortStub, Reach: []string{"accepted", "rejected"}, MaxSteps: 50000000, TimeoutMs: 30000,
					Bound: "problems that arise only during augment merging: two augmenting modules adding leaves with symbolic names to symbolic targets (collisions, leaf targets, missing targets); a clean result must carry no recorded error anywhere", Outside: "larger collision patterns"},
				{Name: "H04grp", Pkg: "yang", Fn: "H06", Redirects: errSortStub, Reach: []string{"processed", "aimed"}, MaxSteps: 400000000, TimeoutMs: 30000,
					Bound: "the grouping universe of C06 (uses in containers, list, other module; deviations and augment aimed at one instance): the walker on every clean result", Outside: "-"},
				{Name: "H04composite", Pkg: "yang", Fn: "H17comp", Redirects: errSortStub, Reach: []string{"processed"}, MaxSteps: 200000000, TimeoutMs: 30000,
					Bound: "the composite schema (65 nodes, 4 modules + submodule)", Outside: "-"},
			},
			Assumptions: []string{"errorSort replaced by a pass-through stub (engine side)", "the walker also runs inside every other pipeline harness (C06, C07, C08, C11, C12, C17) on every path on which processing reported no error"},
		},
		{
			ID: "C08",
			Harnesses: []Harness{
				{Name: "H08", Pkg: "yang", Fn: "H08", Quick: map[string]int{"d": 1}, Thorough: map[string]int{"d": 2}, Redirects: errSortStub,
					Reach: []string{"applied", "rejected"}, MaxSteps: 400000000, TimeoutMs: 30000,
					Bound: "base module with a leaf (default present/absent), a leaf-list (bounds present/absent), a list, a container, an untargeted leaf and a grouping used twice; one deviation whose target ranges over {leaf, leaf-list, list, container, missing node, leaf of one grouping instance} with 1 (thorough 1..2) deviate statements, each of kind {not-supported, add, replace, delete, unknown word} naming one property of {default (symbolic value), config, mandatory, min-elements, max-elements, units, type, unresolvable type}; with and without the ignore-not-supported option; compared with the run without the deviating module", Outside: "must/unique deviations (as quantified); deleting min-elements 0 / max-elements unbounded from a node without the statement (absence is indistinguishable from the default in the library: known limitation, not exercised); more than two deviate statements; several deviating modules"},
			},
			Assumptions: []string{"errorSort replaced by a pass-through stub (engine side)", "deleting the default of a leaf-list is documented by the library as unsupported and reported as an error: accepted as 'reported'"},
		},
		{
			ID: "C09",
			Harnesses: []Harness{
				{Name: "H09a", Pkg: "yang", Fn: "H09a", Redirects: errSortStub, Reach: []string{"resolved", "rejected"}, MaxSteps: 400000000, TimeoutMs: 30000, MaxPaths: 400000,
					Bound: "typedefs present or absent at 7 sites (module top, submodule top, container, grouping, rpc input, imported module top, imported module's submodule top), each named a or b (symbolic: shadowing and same-named typedefs elsewhere occur); one reference at 5 sites (module top, container, grouping used elsewhere, rpc input, submodule top) spelled unprefixed / own prefix / import prefix / unknown prefix with a symbolic name", Outside: "list, output and notification scopes; nested includes; typedef names equal at the top of a module and of its submodule (a schema error, assumed away)"},
				{Name: "H09b", Pkg: "yang", Fn: "H09b", Redirects: errSortStub, Reach: []string{"resolved"}, MaxSteps: 400000000, TimeoutMs: 30000, MaxPaths: 400000,
					Bound: "chain string <- t1 <- t2 <- t3 <- two leaves (and one leaf of t2), every level with units / default / pattern / length present or absent (2^16 combinations): units and default nearest-wins, patterns accumulated in chain order and separately per leaf, nearest length", Outside: "enum/bit/fraction-digits/path/union inheritance (H09c covers union members in chains); deeper chains"},
				{Name: "H09c", Pkg: "yang", Fn: "H09c", Redirects: errSortStub, Reach: []string{"resolved", "rejected"}, MaxSteps: 400000000, TimeoutMs: 30000,
					Bound: "three typedefs whose base is drawn from {a, b, c, string, unknown name, own-prefixed a, union with a typedef member}: every cycle, chain and unknown reference", Outside: "longer cycles"},
			},
			Assumptions: []string{"errorSort replaced by a pass-through stub (engine side)"},
		},
		{
			ID: "C13",
			Harnesses: []Harness{
				{Name: "H13a", Pkg: "yang", Fn: "H13a", Quick: map[string]int{"dates": 2}, Thorough: map[string]int{"dates": 3}, Redirects: errSortStub,
					Reach: []string{"loaded", "rejected"}, MaxSteps: 100000000, TimeoutMs: 30000, MaxPaths: 600000,
					Bound: "three module headers (the first named m, the others m or n), each with 0..2 revision statements over `dates` dates in either written order, an importer of m with or without a revision-date, all 6 load orders", Outside: "more than three modules; revision-dates that are not loaded (no claim in the property); a name carried both by a module without revision and by one with a revision (KNOWN FINDING: accepted or rejected depending on load order)"},
				{Name: "H13b", Pkg: "yang", Fn: "H13b", Quick: map[string]int{"picks1": 3, "picks2": 1}, Thorough: map[string]int{"picks1": 3, "picks2": 2}, Redirects: map[string]string{"ReadDir": "h13ReadDir"}, Reach: []string{"found", "not-found"}, MaxSteps: 100000000, TimeoutMs: 30000, MaxPaths: 2000000,
					Bound: "two search-path directories, the first holding up to 3 and the second up to 1 (thorough 2) files drawn from 11 candidate names derived from the wanted name ab (exact, three dated, near misses abc.yang, abc@date, ab-x@date, malformed date, .bak suffix, xab, xab@date) and optionally a sub-directory named like a candidate: findInDir per directory and findFile over the path", Outside: "the real file system (directory listing order, I/O errors): ioutil.ReadDir is a harness directory model (engine side; native replay builds real temporary directories); recursive dir/... search"},
				{Name: "H13c", Pkg: "yang", Fn: "H13c", Redirects: errSortStub, Reach: []string{"compared"}, MaxSteps: 400000000, TimeoutMs: 30000, MaxPaths: 600000,
					Bound: "every assignment of 8 top-level definitions (typedef, grouping, two identities, container using both, identityref leaf, augment, container using the grouping) to {module, submodule s1, submodule s2}, with s2 included by the module or by s1: tree identical to the unsplit module", Outside: "more submodules; definitions referring to each other across more than one hop"},
			},
			Assumptions: []string{"errorSort replaced by a pass-through stub (engine side)"},
		},
		{
			ID: "C18",
			Harnesses: []Harness{
				{Name: "H18", Pkg: "yang", Fn: "H18", Quick: map[string]int{"n": 4}, Thorough: map[string]int{"n": 5},
					Reach: []string{"compared"}, MaxSteps: 400000000, TimeoutMs: 30000, MaxPaths: 2000000,
					Bound: "every sequence of n operations (then a final process) over {load good g1, load good g2 importing g1 (typedef, augment, identity, identityref across modules), load good g3 importing g2 (third link of an identity chain), load e1 (processing error: bad range), load e2 (processing error through a typedef chain), load bad b1 (syntax error), bad b2 (rejected after a scoped typedef with an unknown type was registered), bad b3 (rejected module named like g1), bad b4 (rejected after a good scoped typedef), process}: after every process the error list and the dump equal those of the batch run of the accepted texts on a fresh set", Outside: "longer histories; other texts; the three KNOWN traces of history listed in known_findings.json (typedefs of a rejected module, errors not re-reported after memoisation), which are reported as KNOWN-FINDING"},
			},
			Assumptions: []string{"the real errorSort runs (error lists are compared as sequences)"},
		},
		{
			ID: "C05",
			Harnesses: []Harness{
				{Name: "H05", Pkg: "yang", Fn: "H05", Quick: map[string]int{"orders": 3}, Thorough: map[string]int{"orders": 6}, MapOrder: "Module|Typedef|resolvedIdentity|deviationType|Entry|Node", MapBudget: 1,
					Reach: []string{"compared"}, MaxSteps: 800000000, TimeoutMs: 30000, MaxPaths: 2000000,
					Bound: "five four-module schemas (same-named identities from modules sharing a prefix; chained and choice augments from three modules; eight independent errors in four modules; two modules augmenting the same name; two revisions of a module with importers and a deviating module with five deviate statements): run once in written load order and insertion map order, then again in one of 3 (thorough 6) load orders, with one range event over any of the library's maps (keys or values of type Module, Typedef, resolvedIdentity, deviationType, Entry, Node; up to 4 entries) taking any permutation, at any position in either run", Outside: "two or more simultaneously perturbed range events; maps with more than 4 entries; other schemas; the goyang binary's actual stdout (tree/types formatters are not run by this harness)"},
			},
			Assumptions: []string{"map iteration order is a symbolic choice made by the solver at each eligible range event (engine semantics, DESIGN 2.4); native replay of a counterexample repeats the run 150 times and needs two different outcomes"},
		},
		{
			ID: "C10",
			Harnesses: []Harness{
				{Name: "H10a-int", Pkg: "yang", Fn: "H10a", Quick: map[string]int{"k": 2, "p": 2, "mm": 1, "fdlo": 0, "fdhi": 0},
					Thorough:  map[string]int{"k": 3, "p": 2, "mm": 1, "fdlo": 0, "fdhi": 0},
					Redirects: h10Redirects, Summaries: []string{numberLess}, Reach: []string{"accepted", "rejected"}, MaxSteps: 50000000, TimeoutMs: 30000,
					Bound:     "integer ranges and lengths: every restriction skeleton of k parts (each a single value or a pair; every endpoint a number, min or max) x every valid parent set of p parts; all endpoints arbitrary 64-bit magnitudes with sign; one universally quantified member x",
					Outside:   "more than k written parts or p parent parts; the textual number syntax (decided by C15: the number parsers are stubbed by arbitrary Numbers here)"},
				{Name: "H10a-dec-k1", Pkg: "yang", Fn: "H10a", Quick: map[string]int{"k": 1, "p": 2, "mm": 1, "fdlo": 1, "fdhi": 18},
					Redirects: h10Redirects, Summaries: []string{numberLess}, Reach: []string{"accepted", "rejected"}, MaxSteps: 50000000, TimeoutMs: 30000,
					Bound:     "decimal64 ranges at every fraction-digits 1..18: every one-part restriction (single value or pair; endpoints number/min/max) x every valid parent of 2 parts; endpoints arbitrary signed 64-bit mantissas",
					Outside:   "as H10a-int"},
				{Name: "H10a-dec-k2", Pkg: "yang", Fn: "H10a", Quick: map[string]int{"k": 2, "p": 1, "mm": 0, "fdlo": 2, "fdhi": 2},
					Thorough:  map[string]int{"k": 2, "p": 1, "mm": 1, "fdlo": 1, "fdhi": 2},
					Redirects: h10Redirects, Summaries: []string{numberLess}, Reach: []string{"accepted", "rejected"}, MaxSteps: 50000000, TimeoutMs: 30000,
					Bound:     "decimal64 ranges at fraction-digits fdlo..fdhi: every two-part skeleton x every valid one-part parent (sorting, coalescing, overlap detection on decimals)",
					Outside:   "as H10a-int"},
				{Name: "H10a-dec-k2hi", Pkg: "yang", Fn: "H10a", Quick: map[string]int{"k": 2, "p": 1, "mm": 0, "fdlo": 18, "fdhi": 18},
					Thorough:  map[string]int{"k": 2, "p": 1, "mm": 1, "fdlo": 17, "fdhi": 18},
					Redirects: h10Redirects, Summaries: []string{numberLess}, Reach: []string{"accepted", "rejected"}, MaxSteps: 50000000, TimeoutMs: 30000,
					Bound:     "as H10a-dec-k2 at the highest precisions",
					Outside:   "as H10a-int"},
			},
			Assumptions: []string{"ParseInt/ParseDecimal are redirected (inside the C10 harness only) to a stub returning an arbitrary Number: the stub's contract 'returns the number the token denotes' is what C15 decides for the real parsers; native replay uses the real parsers on printed model values",
				"Number.Less is summarised (all its paths merged into one term per call, recomputed from its current SSA at every call)",
				"parent sets satisfy the representation invariant (valid, ascending, disjoint, non-adjacent) - the inductive hypothesis of a derivation chain; result sets are checked to satisfy it again"},
		},
		{
			ID: "C20",
			Harnesses: []Harness{
				{Name: "H20a", Pkg: "indent", Fn: "H20a", Quick: map[string]int{"n": 4, "p": 2}, Thorough: map[string]int{"n": 6, "p": 2},
					Reach: []string{"compared"}, MaxSteps: 2000000,
					Bound:   "every prefix of p bytes (all 256 values each, line breaks included) x every text of n bytes x every division into three successive Write calls (empty chunks included)",
					Outside: "texts longer than n bytes, prefixes longer than p bytes, more than three Write calls"},
				{Name: "H20e", Pkg: "indent", Fn: "H20e", Quick: map[string]int{"n": 3}, Thorough: map[string]int{"n": 5}, Reach: []string{"done"}, MaxSteps: 2000000,
					Bound: "empty prefix, every text of n bytes", Outside: "longer texts"},
				{Name: "H20b", Pkg: "indent", Fn: "H20b", Quick: map[string]int{"n": 4, "p": 2}, Thorough: map[string]int{"n": 5, "p": 2},
					Reach: []string{"short-write"}, MaxSteps: 2000000,
					Bound:   "every prefix of p bytes x every text of n bytes x every cut into a first fully accepted Write and a second Write x every position at which the underlying writer stops short during the second Write",
					Outside: "underlying writers that violate the io.Writer contract (n < len(p) with nil error); behaviour of further writes after a failed one; longer texts"},
			},
			Assumptions: []string{"the underlying writer obeys the io.Writer contract (harness stubs h20Rec, h20Lim)"},
		},
	}
}
