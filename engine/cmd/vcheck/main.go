// vcheck: bounded symbolic checking of goyang's real SSA (see /verif/DESIGN.md).
package main

import (
	"crypto/sha1"
	"encoding/json"
	"fmt"
	"os"
	"path/filepath"
	"runtime/debug"
	"runtime/pprof"
	"sort"
	"strconv"
	"strings"
	"time"

	"gosym/exec"
)

func usage() {
	fmt.Fprintln(os.Stderr, `usage:
  vcheck run <property> [--tier quick|thorough] [--only <harness>]   decide a property, write evidence
  vcheck one <pkg> <fn> [k=v ...]                                    run one harness function in-process (debug)
  vcheck replay <file>                                               replay a recorded counterexample natively
  vcheck list                                                        list properties and harnesses
  vcheck worker <pkg>                                                (internal)`)
	os.Exit(64)
}

func main() {
	if len(os.Args) < 2 {
		usage()
	}
	switch os.Args[1] {
	case "worker":
		workerMain(os.Args[2])
	case "run":
		os.Exit(cmdRun(os.Args[2:]))
	case "one":
		os.Exit(cmdOne(os.Args[2:]))
	case "replay":
		os.Exit(cmdReplay(os.Args[2:]))
	case "list":
		for _, p := range properties() {
			for _, h := range p.Harnesses {
				fmt.Printf("%s %s %s.%s quick=%v thorough=%v\n", p.ID, h.Name, h.Pkg, h.Fn, h.Quick, h.Thorough)
			}
		}
	default:
		usage()
	}
}

type knownFinding struct {
	Property  string `json:"property"`
	Status    string `json:"status"` // "known" | "fixed"
	Harness   string `json:"harness,omitempty"`
	Label     string `json:"check_label,omitempty"`
	Signature string `json:"signature,omitempty"`
	What      string `json:"what"`
	FixCommit string `json:"fix_commit,omitempty"`
}

func loadKnown() []knownFinding {
	b, err := os.ReadFile(filepath.Join(verifRoot(), "known_findings.json"))
	if err != nil {
		return nil
	}
	var ks []knownFinding
	if err := json.Unmarshal(b, &ks); err != nil {
		fmt.Fprintln(os.Stderr, "known_findings.json:", err)
		os.Exit(2)
	}
	return ks
}

func cmdOne(args []string) int {
	debug.SetGCPercent(300)
	if len(args) < 2 {
		usage()
	}
	pkg, fn := args[0], args[1]
	params := map[string]int{}
	job := exec.Job{Fn: fn, Params: params, MaxSteps: 20000000, SampleEach: 5}
	for _, kv := range args[2:] {
		p := strings.SplitN(kv, "=", 2)
		if len(p) != 2 {
			usage()
		}
		switch p[0] {
		case "@redirect":
			q := strings.SplitN(p[1], ":", 2)
			if job.Redirects == nil {
				job.Redirects = map[string]string{}
			}
			job.Redirects[q[0]] = q[1]
		case "@summary":
			job.Summaries = append(job.Summaries, p[1])
		case "@maporder":
			job.MapOrder = p[1]
			job.MapBudget = 1
		case "@z3log":
			job.Z3Log = p[1]
		case "@maxpaths":
			job.MaxPaths, _ = strconv.Atoi(p[1])
		case "@timeout":
			job.TimeoutMs, _ = strconv.Atoi(p[1])
		default:
			n, err := strconv.Atoi(p[1])
			if err != nil {
				usage()
			}
			params[p[0]] = n
		}
	}
	t0 := time.Now()
	s, err := loadSession(pkg)
	if err != nil {
		fmt.Println("load error:", err)
		return 2
	}
	defer s.Close()
	fmt.Printf("load+ssa+init %v (init skipped %d calls)\n", s.LoadTime.Round(time.Millisecond), len(s.InitSkipped))
	if os.Getenv("GOSYM_DEBUG") != "" {
		for _, x := range s.InitSkipped {
			fmt.Println("  init skipped:", firstLine(x))
		}
	}
	if pf := os.Getenv("GOSYM_PROF"); pf != "" {
		f, _ := os.Create(pf)
		pprof.StartCPUProfile(f)
		defer pprof.StopCPUProfile()
	}
	t1 := time.Now()
	res := s.RunJob(job)
	fmt.Printf("explore %v total %v\n", time.Since(t1).Round(time.Millisecond), time.Since(t0).Round(time.Millisecond))
	fmt.Printf("paths=%d aborted=%d steps=%d blocks=%d decisions=%d checks=%d queries=%d (sat %d unsat %d unknown %d) solver=%dms maxq=%dms remaining=%d funcs=%d\n",
		res.Paths, res.Aborted, res.Steps, res.Blocks, res.Decisions, res.Checks, res.Queries, res.Sat, res.Unsat, res.Unknown, res.SolverMs, res.MaxQueryMs, len(res.Remaining), len(res.Funcs))
	for _, k := range sortedKeys(res.Reached) {
		fmt.Printf("  reach %-44s %d\n", k, res.Reached[k])
	}
	for _, k := range sortedKeys(res.Unsupported) {
		fmt.Printf("  UNSUPPORTED x%d: %s\n", res.Unsupported[k], k)
	}
	if res.Error != "" {
		fmt.Println("  ERROR:", res.Error)
	}
	for _, f := range res.Findings {
		fmt.Printf("  FINDING %s [%s] sig=%q inputs: %s notes=%v\n", f.Kind, f.Label, f.Sig, joinInputs(f.Inputs), f.Notes)
	}
	if os.Getenv("GOSYM_SAMPLES") != "" {
		for _, sm := range res.Samples {
			fmt.Printf("  sample reached=%v inputs: %s notes=%v\n", sm.Reached, joinInputs(sm.Inputs), sm.Notes)
		}
	}
	if os.Getenv("GOSYM_NATIVE") != "" && len(res.Findings) > 0 {
		var cases []replayCase
		for _, f := range res.Findings {
			cases = append(cases, replayCase{Fn: fn, Params: params, Inputs: f.Inputs})
		}
		outs, raw, err := nativeReplay(pkg, cases[:1], 60*time.Second)
		if err != nil {
			fmt.Println("native replay error:", err)
			fmt.Println(raw)
		}
		for i, o := range outs {
			fmt.Printf("  NATIVE %d: %s (reproduces=%v)\n", i, o.Outcome, reproduces(res.Findings[i], o))
		}
	}
	return 0
}

func cmdReplay(args []string) int {
	if len(args) != 1 {
		usage()
	}
	b, err := os.ReadFile(args[0])
	if err != nil {
		fmt.Println(err)
		return 2
	}
	var rf replayFile
	if err := json.Unmarshal(b, &rf); err != nil {
		fmt.Println(err)
		return 2
	}
	outs, raw, err := nativeReplay(rf.Pkg, []replayCase{rf.Case}, 120*time.Second)
	if err != nil {
		fmt.Println("replay error:", err)
		fmt.Println(raw)
		return 2
	}
	fmt.Printf("property=%s harness=%s label=%q\nrecorded native outcome: %s\nnative outcome now:      %s\n", rf.Property, rf.Harness, rf.Label, rf.Native, outs[0].Outcome)
	if reproduces(exec.Finding{Kind: rf.Kind, Label: rf.Label}, outs[0]) {
		fmt.Printf("VIOLATION property=%s replay=%s\n", rf.Property, args[0])
		return 1
	}
	fmt.Println("does not reproduce on the current tree")
	return 0
}

// ---------------------------------------------------------------------------------------------

type evidence struct {
	PropertyID  string                 `json:"property_id"`
	Tier        string                 `json:"tier"`
	Seed        int                    `json:"seed"`
	Level       string                 `json:"level"`
	Coverage    map[string]interface{} `json:"coverage"`
	Assumptions []string               `json:"assumptions"`
	WallS       float64                `json:"wall_s"`
	Violations  int                    `json:"violations"`
}

func cmdRun(args []string) int {
	if len(args) < 1 {
		usage()
	}
	id := args[0]
	tier := os.Getenv("VERIF_TIER")
	only := ""
	for i := 1; i < len(args); i++ {
		switch args[i] {
		case "--tier":
			i++
			tier = args[i]
		case "--only":
			i++
			only = args[i]
		default:
			usage()
		}
	}
	if tier == "" {
		tier = "quick"
	}
	if tier != "quick" && tier != "thorough" {
		usage()
	}
	seed, _ := strconv.Atoi(os.Getenv("VERIF_SEED"))
	var prop *Property
	for _, p := range properties() {
		if p.ID == id {
			p := p
			prop = &p
		}
	}
	if prop == nil {
		fmt.Fprintln(os.Stderr, "unknown property", id)
		return 64
	}
	t0 := time.Now()
	known := loadKnown()
	evPath := filepath.Join(verifRoot(), "evidence", id+".json")
	if d := os.Getenv("VERIF_EVIDENCE_DIR"); d != "" {
		// seeded-change runs against scratch worktrees must not overwrite the committed evidence
		evPath = filepath.Join(d, id+".json")
	}
	os.MkdirAll(filepath.Dir(evPath), 0o755)

	// group harnesses by package
	byPkg := map[string][]*harnessRun{}
	var all []*harnessRun
	for i := range prop.Harnesses {
		h := &prop.Harnesses[i]
		if only != "" && h.Name != only {
			continue
		}
		if h.OnlyThorough && tier != "thorough" {
			continue
		}
		params := h.Quick
		if tier == "thorough" && h.Thorough != nil {
			params = h.Thorough
		}
		if params == nil {
			params = map[string]int{}
		}
		r := &harnessRun{h: h, params: params, queue: []string{""}, cross: tier == "thorough" && os.Getenv("VERIF_NO_CROSS") == ""}
		byPkg[h.Pkg] = append(byPkg[h.Pkg], r)
		all = append(all, r)
	}
	var inconclusive []string
	var pkgs []string
	for p := range byPkg {
		pkgs = append(pkgs, p)
	}
	sort.Strings(pkgs)
	for _, p := range pkgs {
		if err := explore(p, byPkg[p], nil); err != nil {
			reason := err.Error()
			if !strings.Contains(reason, "harness-stale") {
				reason = "worker-failure: " + reason
			}
			inconclusive = append(inconclusive, firstLine(reason))
		}
	}

	// ---- verdict per harness
	type confirmed struct {
		run *harnessRun
		f   exec.Finding
		o   nativeOutcome
	}
	var violations []confirmed
	var knownLines []string
	totalFindings := 0
	for _, r := range all {
		for _, e := range r.errors {
			inconclusive = append(inconclusive, r.h.Name+": "+firstLine(e))
		}
		for _, k := range sortedKeys(r.unsupported) {
			inconclusive = append(inconclusive, fmt.Sprintf("%s: unsupported x%d: %s", r.h.Name, r.unsupported[k], k))
		}
		if r.unknown > 0 {
			inconclusive = append(inconclusive, fmt.Sprintf("%s: %d solver queries answered unknown", r.h.Name, r.unknown))
		}
		if r.budgetStop {
			inconclusive = append(inconclusive, fmt.Sprintf("%s: exploration cut short after several paths hit the step or depth budget, %d prefixes unexplored", r.h.Name, len(r.queue)))
		} else if r.overBudget || len(r.queue) > 0 {
			inconclusive = append(inconclusive, fmt.Sprintf("%s: path budget %d exhausted with %d prefixes unexplored", r.h.Name, r.h.MaxPaths, len(r.queue)))
		}
		// split findings into known / to be confirmed
		var todo []exec.Finding
		seenKey := map[string]bool{}
		for _, f := range r.findings {
			key := f.Kind + "|" + f.Label + "|" + f.Sig
			if f.Sig != "" {
				matched := false
				for _, k := range known {
					if k.Property == id && k.Status == "known" && k.Signature == f.Sig && (k.Harness == "" || k.Harness == r.h.Name) {
						matched = true
						if !seenKey[key] {
							knownLines = append(knownLines, fmt.Sprintf("KNOWN-FINDING: property=%s %s [harness %s, check %q, signature %s, e.g. %s]", id, k.What, r.h.Name, f.Label, f.Sig, joinInputs(f.Inputs)))
						}
					}
				}
				seenKey[key] = true
				if matched {
					continue
				}
			}
			n := 0
			for _, g := range todo {
				if g.Kind+"|"+g.Label+"|"+g.Sig == key {
					n++
				}
			}
			if n < 2 {
				todo = append(todo, f)
			}
		}
		totalFindings += len(todo)
		// native confirmation, one process per finding (a crash must not hide the others)
		for _, f := range todo {
			limit := 120 * time.Second
			if f.Kind == "budget" {
				// a non-termination candidate: a run that has not returned after 40 s on inputs
				// of a few bytes hangs (and may be allocating all the while)
				limit = 40 * time.Second
			}
			outs, raw, err := nativeReplay(r.h.Pkg, []replayCase{{Fn: r.h.Fn, Params: r.params, Inputs: f.Inputs}}, limit)
			if err != nil {
				inconclusive = append(inconclusive, fmt.Sprintf("%s: native replay failed: %v: %s", r.h.Name, err, firstLine(raw)))
				continue
			}
			if reproduces(f, outs[0]) {
				dup := false
				for _, v := range violations {
					if v.run == r && v.f.Kind == f.Kind && v.f.Label == f.Label {
						dup = true
					}
				}
				if !dup {
					violations = append(violations, confirmed{r, f, outs[0]})
				}
			} else {
				inconclusive = append(inconclusive, fmt.Sprintf("%s: engine finding %s %q (inputs %s) did not reproduce natively (native: %s) - engine or harness defect", r.h.Name, f.Kind, f.Label, joinInputs(f.Inputs), outs[0].Outcome))
			}
		}
		// vacuity guard
		for _, l := range r.h.Reach {
			if r.reached[l] == 0 {
				inconclusive = append(inconclusive, fmt.Sprintf("%s: label %q never reached (vacuous harness?)", r.h.Name, l))
			}
		}
	}

	// ---- witness validation: replay sampled passing paths natively
	validated, witnessTried := 0, 0
	var sampleOut []interface{}
	if len(inconclusive) == 0 {
		perHarness := 3
		if tier == "thorough" {
			perHarness = 8
		}
		for _, p := range pkgs {
			var cases []replayCase
			var expect []exec.Sample
			var names []string
			for _, r := range byPkg[p] {
				ss := r.samples
				// seed-dependent choice of which samples are replayed
				if len(ss) > perHarness {
					off := 0
					if seed > 0 {
						off = seed % len(ss)
					}
					rot := append(append([]exec.Sample{}, ss[off:]...), ss[:off]...)
					ss = rot[:perHarness]
				}
				for _, s := range ss {
					if contains(s.Reached, "panic") {
						continue
					}
					cases = append(cases, replayCase{Fn: r.h.Fn, Params: r.params, Inputs: s.Inputs})
					expect = append(expect, s)
					names = append(names, r.h.Name)
				}
			}
			if len(cases) == 0 {
				continue
			}
			outs, raw, err := nativeReplay(p, cases, 300*time.Second)
			if err != nil {
				inconclusive = append(inconclusive, fmt.Sprintf("witness replay failed for package %s: %v: %s", p, err, lastLines(raw, 6)))
				continue
			}
			for i, o := range outs {
				witnessTried++
				want := strings.Join(expect[i].Reached, "|")
				got := strings.Join(o.Reached, "|")
				if o.Outcome == "ok" && want == got {
					validated++
					if len(sampleOut) < 12 {
						sampleOut = append(sampleOut, map[string]interface{}{"harness": names[i], "inputs": joinInputs(cases[i].Inputs), "reached": expect[i].Reached, "notes": expect[i].Notes, "native": o.Outcome})
					}
				} else {
					inconclusive = append(inconclusive, fmt.Sprintf("%s: witness mismatch: engine path reached [%s], native %s reached [%s] on inputs %s", names[i], want, o.Outcome, got, joinInputs(cases[i].Inputs)))
				}
			}
		}
	}

	// ---- evidence
	var states, transitions int64
	var paths, queries, sat, unsat, unknown, checks int
	var solverMs int64
	var hs []interface{}
	funcSet := map[string]exec.FuncCov{}
	for _, r := range all {
		states += r.blocks
		transitions += int64(r.decisions)
		paths += r.paths
		queries += r.queries
		sat += r.sat
		unsat += r.unsat
		unknown += r.unknown
		checks += r.checks
		solverMs += r.solverMs
		for k, f := range r.funcs {
			g := funcSet[k]
			g.Name, g.Instrs, g.Harness = f.Name, f.Instrs, f.Harness
			g.Calls += f.Calls
			funcSet[k] = g
		}
		hs = append(hs, map[string]interface{}{
			"harness": r.h.Name, "function": r.h.Pkg + "." + r.h.Fn, "params": r.params, "bound": r.h.Bound, "outside_claim": r.h.Outside,
			"paths": r.paths, "paths_ended_by_assumption": r.aborted, "ssa_steps": r.steps, "block_visits": r.blocks,
			"solver_decided_branches": r.decisions, "assertions_discharged": r.checks, "queries": r.queries,
			"sat": r.sat, "unsat": r.unsat, "unknown": r.unknown, "solver_s": float64(r.solverMs) / 1000, "max_query_ms": r.maxQueryMs, "feasibility_answers_from_kept_model": r.modelHits, "second_solver_fallbacks": r.fallbacks, "unsat_verdicts_cross_checked_with_second_solver": r.crossChecked, "paths_that_modified_package_state": r.reinits,
			"reached": r.reached, "redirects": r.h.Redirects, "map_order_site": r.h.MapOrder, "wall_s": r.wall.Seconds(),
		})
		if len(sampleOut) < 4 {
			for _, s := range r.samples {
				if len(sampleOut) >= 4 {
					break
				}
				sampleOut = append(sampleOut, map[string]interface{}{"harness": r.h.Name, "inputs": joinInputs(s.Inputs), "reached": s.Reached, "notes": s.Notes})
			}
		}
	}
	var fnames []string
	for k := range funcSet {
		fnames = append(fnames, k)
	}
	sort.Strings(fnames)
	var funcs []interface{}
	for _, k := range fnames {
		if funcSet[k].Harness {
			continue
		}
		funcs = append(funcs, map[string]interface{}{"name": k, "ssa_instructions": funcSet[k].Instrs, "calls": funcSet[k].Calls})
	}
	if len(sampleOut) == 0 {
		sampleOut = append(sampleOut, "no completed path was sampled")
	}
	ev := evidence{PropertyID: id, Tier: tier, Seed: seed, Level: "model_checking", WallS: time.Since(t0).Seconds(), Violations: len(violations),
		Assumptions: append([]string{
			"go/ssa (x/tools v0.29.0) lowering of /repo's working tree; gosym instruction semantics and intrinsics (DESIGN 2.3); z3 verdicts",
			"claims hold only inside the bounds listed per harness under coverage.harnesses[].bound",
		}, prop.Assumptions...),
		Coverage: map[string]interface{}{
			"states":                        states,
			"transitions":                   transitions,
			"traces_validated_against_impl": validated,
			"samples":                       sampleOut,
			"exhaustive":                    len(inconclusive) == 0,
			"explanation":                   "bounded symbolic execution of the repository's SSA, regenerated from /repo on this run; states = basic-block visits over all feasible paths, transitions = branch decisions decided by the solver, exhaustive = every path inside the stated bounds explored and every query decided",
			"technique":                     "SSA-level symbolic execution (gosym) + SMT (z3 " + z3Version() + "), counterexamples replayed natively",
			"paths":                         paths,
			"assertions_discharged":         checks,
			"queries":                       map[string]int{"total": queries, "sat": sat, "unsat": unsat, "unknown": unknown},
			"solver_s":                      float64(solverMs) / 1000,
			"harnesses":                     hs,
			"functions_encoded":             funcs,
			"witness_replays_tried":         witnessTried,
			"findings_reported_by_engine":   totalFindings,
			"known_findings_seen":           len(knownLines),
			"inconclusive_reasons":          inconclusive,
			"repo_head":                     repoHead(),
			"workers":                       nWorkers(),
		}}
	if states < 1 {
		ev.Coverage["states"] = 1
	}
	if transitions < 1 {
		ev.Coverage["transitions"] = 1
		ev.Coverage["transitions_note"] = "no branch needed a solver decision (all conditions concrete); counted as 1 for schema purposes"
	}
	writeJSON(evPath, ev)

	// ---- report
	for _, l := range knownLines {
		fmt.Println(l)
	}
	if len(violations) > 0 {
		for _, v := range violations {
			rf := replayFile{Property: id, Harness: v.run.h.Name, Pkg: v.run.h.Pkg, Tier: tier, Kind: v.f.Kind, Label: v.f.Label,
				Case: replayCase{Fn: v.run.h.Fn, Params: v.run.params, Inputs: v.f.Inputs}, Engine: v.f.Kind + ": " + v.f.Label,
				Native: v.o.Outcome, Notes: v.f.Notes, RepoHead: repoHead()}
			b, _ := json.MarshalIndent(rf, "", " ")
			sum := sha1.Sum(b)
			dir := filepath.Join(verifRoot(), "replays", id)
			if d := os.Getenv("VERIF_EVIDENCE_DIR"); d != "" {
				dir = filepath.Join(d, "replays", id)
			}
			os.MkdirAll(dir, 0o755)
			path := filepath.Join(dir, fmt.Sprintf("%s-%x.json", v.run.h.Name, sum[:5]))
			os.WriteFile(path, b, 0o644)
			fmt.Printf("counterexample: harness=%s %s %q inputs: %s native: %s\n", v.run.h.Name, v.f.Kind, v.f.Label, joinInputs(v.f.Inputs), v.o.Outcome)
			fmt.Printf("VIOLATION property=%s replay=%s\n", id, path)
		}
		return 1
	}
	if len(inconclusive) > 0 {
		for _, r := range inconclusive {
			fmt.Printf("INCONCLUSIVE property=%s reason=%s\n", id, r)
		}
		return 2
	}
	fmt.Printf("OK property=%s tier=%s harnesses=%d paths=%d assertions=%d queries=%d (unsat %d) witnesses=%d/%d wall=%.1fs\n",
		id, tier, len(all), paths, checks, queries, unsat, validated, witnessTried, time.Since(t0).Seconds())
	return 0
}

func contains(ss []string, s string) bool {
	for _, x := range ss {
		if x == s {
			return true
		}
	}
	return false
}

func lastLines(s string, n int) string {
	ls := strings.Split(strings.TrimSpace(s), "\n")
	if len(ls) > n {
		ls = ls[len(ls)-n:]
	}
	return strings.Join(ls, " / ")
}

func writeJSON(path string, v interface{}) {
	b, err := json.MarshalIndent(v, "", " ")
	if err != nil {
		panic(err)
	}
	if err := os.WriteFile(path, append(b, '\n'), 0o644); err != nil {
		panic(err)
	}
}

var z3v string

func z3Version() string {
	if z3v == "" {
		z3v = "4.8.12"
	}
	return z3v
}
