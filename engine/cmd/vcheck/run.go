package main

import (
	"bufio"
	"encoding/json"
	"fmt"
	"io"
	"os"
	osexec "os/exec"
	"runtime"
	"sort"
	"strconv"
	"strings"
	"sync"
	"time"

	"gosym/exec"
)

// Harness is one bounded universe explored for a property.
type Harness struct {
	Name      string // unique within the property, e.g. "H15a"
	Pkg       string // key of pkgTable
	Fn        string
	Quick     map[string]int // concrete bounds (harness parameters) per tier
	Thorough  map[string]int
	Redirects map[string]string
	Summaries []string // pure callees summarised into one term per call (DESIGN 2.2)
	MapOrder  string
	MapBudget int
	Reach     []string // labels that must be reached on some feasible path (vacuity guard)
	MaxSteps  int
	MaxDepth  int
	MaxPaths  int // total path budget (fail closed)
	TimeoutMs int
	Bound     string // human-readable statement of the bound, echoed into the evidence
	Outside   string // what lies outside the claim
	// SkipThorough / SkipQuick restrict a harness to one tier.
	OnlyThorough bool
}

type Property struct {
	ID          string
	Harnesses   []Harness
	Assumptions []string
}

type worker struct {
	pkg  string
	cmd  *osexec.Cmd
	in   io.WriteCloser
	out  *bufio.Reader
	dead bool
}

func startWorker(pkg string) (*worker, *workerHello, error) {
	self, _ := os.Executable()
	cmd := osexec.Command(self, "worker", pkg)
	cmd.Stderr = os.Stderr
	in, _ := cmd.StdinPipe()
	outp, _ := cmd.StdoutPipe()
	if err := cmd.Start(); err != nil {
		return nil, nil, err
	}
	w := &worker{pkg: pkg, cmd: cmd, in: in, out: bufio.NewReaderSize(outp, 1<<20)}
	line, err := w.out.ReadBytes('\n')
	if err != nil && len(line) == 0 {
		return nil, nil, fmt.Errorf("worker did not start: %v", err)
	}
	var h workerHello
	if e := json.Unmarshal(line, &h); e != nil {
		return nil, nil, fmt.Errorf("worker hello: %v: %s", e, line)
	}
	if !h.Ready {
		cmd.Wait()
		return nil, &h, fmt.Errorf("%s", h.Error)
	}
	return w, &h, nil
}

func (w *worker) run(job exec.Job) (exec.JobResult, error) {
	b, _ := json.Marshal(job)
	b = append(b, '\n')
	if _, err := w.in.Write(b); err != nil {
		return exec.JobResult{}, err
	}
	line, err := w.out.ReadBytes('\n')
	if err != nil && len(line) == 0 {
		return exec.JobResult{}, fmt.Errorf("worker died: %v", err)
	}
	var r exec.JobResult
	if e := json.Unmarshal(line, &r); e != nil {
		return exec.JobResult{}, fmt.Errorf("bad result: %v", e)
	}
	return r, nil
}

func (w *worker) stop() {
	w.in.Close()
	done := make(chan struct{})
	go func() { w.cmd.Wait(); close(done) }()
	select {
	case <-done:
	case <-time.After(5 * time.Second):
		w.cmd.Process.Kill()
	}
}

// harnessRun accumulates the results of all jobs of one harness.
type harnessRun struct {
	h           *Harness
	params      map[string]int
	queue       []string // unexplored prefixes
	inflight    int
	paths       int
	aborted     int
	steps       int64
	blocks      int64
	decisions   int
	checks      int
	queries     int
	sat, unsat  int
	unknown     int
	solverMs    int64
	maxQueryMs  int64
	modelHits   int
	fallbacks   int
	crossChecked int
	cross       bool // thorough tier: unsat verdicts are re-asked of a second solver
	reinits     int
	reached     map[string]int
	findings    []exec.Finding
	unsupported map[string]int
	samples     []exec.Sample
	funcs       map[string]exec.FuncCov
	errors      []string
	overBudget  bool
	budgetStop  bool // several paths ran into the step or depth budget: exploration was cut short
	wall        time.Duration
	started     time.Time
}

func nWorkers() int {
	if s := os.Getenv("VERIF_WORKERS"); s != "" {
		if n, err := strconv.Atoi(s); err == nil && n > 0 {
			return n
		}
	}
	n := runtime.NumCPU()
	if n > 16 {
		n = 16
	}
	if n < 1 {
		n = 1
	}
	return n
}

// explore runs all harnesses of one package group on a pool of worker processes.
func explore(pkg string, runs []*harnessRun, logf func(string, ...interface{})) error {
	nw := nWorkers()
	var mu sync.Mutex
	cond := sync.NewCond(&mu)
	var firstErr error
	var stale *workerHello
	pending := func() (*harnessRun, []string) {
		// pick the harness with queued prefixes and fewest inflight jobs
		var best *harnessRun
		for _, r := range runs {
			if len(r.queue) == 0 || r.overBudget || r.budgetStop {
				continue
			}
			if best == nil || r.inflight < best.inflight {
				best = r
			}
		}
		if best == nil {
			return nil, nil
		}
		// hand out one prefix per job; the shallowest (front of queue) first
		p := best.queue[0]
		best.queue = best.queue[1:]
		best.inflight++
		return best, []string{p}
	}
	allDone := func() bool {
		for _, r := range runs {
			if r.inflight > 0 || (len(r.queue) > 0 && !r.overBudget && !r.budgetStop) {
				return false
			}
		}
		return true
	}
	var wg sync.WaitGroup
	for wi := 0; wi < nw; wi++ {
		wg.Add(1)
		go func(wi int) {
			defer wg.Done()
			var w *worker
			defer func() {
				if w != nil {
					w.stop()
				}
			}()
			for {
				mu.Lock()
				var r *harnessRun
				var pfx []string
				for {
					if firstErr != nil {
						mu.Unlock()
						return
					}
					r, pfx = pending()
					if r != nil {
						break
					}
					if allDone() {
						mu.Unlock()
						cond.Broadcast()
						return
					}
					cond.Wait()
				}
				// chunk size: small while there is little queued work, to fan out quickly
				queued := 0
				for _, x := range runs {
					queued += len(x.queue)
				}
				chunk := 100
				if queued < nw {
					chunk = 2 // starving: return the alternatives quickly so that other workers get prefixes
				} else if queued < 4*nw {
					chunk = 10
				}
				if r.started.IsZero() {
					r.started = time.Now()
				}
				mu.Unlock()
				if w == nil {
					var h *workerHello
					var err error
					w, h, err = startWorker(pkg)
					if err != nil {
						mu.Lock()
						if firstErr == nil {
							firstErr = err
							stale = h
						}
						r.inflight--
						mu.Unlock()
						cond.Broadcast()
						return
					}
				}
				job := exec.Job{Fn: r.h.Fn, Params: r.params, Prefixes: pfx, MaxPaths: chunk, MaxSteps: r.h.MaxSteps,
					MaxDepth: r.h.MaxDepth, TimeoutMs: r.h.TimeoutMs, Redirects: r.h.Redirects, MapOrder: r.h.MapOrder,
					MapBudget: r.h.MapBudget, SampleEach: 7, Summaries: r.h.Summaries, Cross: r.cross}
				res, err := w.run(job)
				mu.Lock()
				r.inflight--
				if err != nil {
					r.errors = append(r.errors, err.Error())
					w.dead = true
					w = nil
				} else {
					r.absorb(res)
					if r.h.MaxPaths > 0 && r.paths > r.h.MaxPaths {
						r.overBudget = true
					}
				}
				r.wall = time.Since(r.started)
				mu.Unlock()
				cond.Broadcast()
			}
		}(wi)
	}
	wg.Wait()
	_ = stale
	return firstErr
}

func (r *harnessRun) absorb(res exec.JobResult) {
	r.paths += res.Paths
	r.aborted += res.Aborted
	r.steps += res.Steps
	r.blocks += res.Blocks
	r.decisions += res.Decisions
	r.checks += res.Checks
	r.queries += res.Queries
	r.sat += res.Sat
	r.unsat += res.Unsat
	r.unknown += res.Unknown
	r.solverMs += res.SolverMs
	r.modelHits += res.ModelHits
	r.fallbacks += res.Fallbacks
	r.crossChecked += res.CrossChecked
	r.reinits += res.Reinits
	if res.MaxQueryMs > r.maxQueryMs {
		r.maxQueryMs = res.MaxQueryMs
	}
	if r.reached == nil {
		r.reached = map[string]int{}
		r.unsupported = map[string]int{}
		r.funcs = map[string]exec.FuncCov{}
	}
	for k, v := range res.Reached {
		r.reached[k] += v
	}
	for k, v := range res.Unsupported {
		r.unsupported[k] += v
	}
	r.findings = append(r.findings, res.Findings...)
	// every path that runs into the step or depth budget costs the whole budget; a few of them
	// are enough to report (each is a non-termination candidate that is confirmed natively),
	// the rest of the universe is then left unexplored and the run cannot end as a pass
	nb := 0
	for _, f := range r.findings {
		if f.Kind == "budget" {
			nb++
		}
	}
	if nb >= 4 {
		r.budgetStop = true
	}
	if len(r.samples) < 24 {
		r.samples = append(r.samples, res.Samples...)
	}
	for _, f := range res.Funcs {
		g := r.funcs[f.Name]
		g.Name, g.Instrs, g.Harness = f.Name, f.Instrs, f.Harness
		g.Calls += f.Calls
		r.funcs[f.Name] = g
	}
	if res.Error != "" {
		r.errors = append(r.errors, res.Error)
	}
	r.queue = append(r.queue, res.Remaining...)
}

func sortedKeys(m map[string]int) []string {
	var ks []string
	for k := range m {
		ks = append(ks, k)
	}
	sort.Strings(ks)
	return ks
}

func joinInputs(in []exec.InputVal) string {
	var sb strings.Builder
	for i, v := range in {
		if i > 0 {
			sb.WriteByte(' ')
		}
		sb.WriteString(v.Name + "=" + v.Value)
	}
	return sb.String()
}
