package exec

import (
	"fmt"
	"go/token"
	"go/types"
	"unicode/utf8"
)

// symstr is a string with concrete length whose bytes are uint8 constants or symv terms.
type symstr []value

func strBytes(v value) []value {
	switch v := v.(type) {
	case string:
		out := make([]value, len(v))
		for i := 0; i < len(v); i++ {
			out[i] = v[i]
		}
		return out
	case symstr:
		return []value(v)
	}
	panic(unsupported(fmt.Sprintf("strBytes %T", v)))
}

func mkStr(bs []value) value {
	conc := true
	for _, b := range bs {
		if _, ok := b.(symv); ok {
			conc = false
			break
		}
	}
	if conc {
		b := make([]byte, len(bs))
		for i := range bs {
			b[i] = bs[i].(byte)
		}
		return string(b)
	}
	return symstr(append([]value{}, bs...))
}

func isStrVal(v value) bool {
	switch v.(type) {
	case string, symstr:
		return true
	}
	return false
}

func symStrBinop(op token.Token, x, y value) value {
	xb, yb := strBytes(x), strBytes(y)
	switch op {
	case token.ADD:
		return mkStr(append(append([]value{}, xb...), yb...))
	case token.EQL, token.NEQ:
		var t *Term
		if len(xb) != len(yb) {
			t = tBool(false)
		} else {
			t = tBool(true)
			for i := range xb {
				t = tAnd(t, tCmp("=", termOf(xb[i]), termOf(yb[i])))
			}
		}
		if op == token.NEQ {
			t = tNot(t)
		}
		return mkSym(types.Bool, t)
	}
	switch op {
	case token.LSS:
		return mkSym(types.Bool, strLess(xb, yb))
	case token.GTR:
		return mkSym(types.Bool, strLess(yb, xb))
	case token.LEQ:
		return mkSym(types.Bool, tNot(strLess(yb, xb)))
	case token.GEQ:
		return mkSym(types.Bool, tNot(strLess(xb, yb)))
	}
	panic(unsupported("string binop " + op.String() + " on symbolic string"))
}

// runeToStr converts a symbolic rune/byte to a 1-byte string, deciding that it is ASCII.
func runeToStr(x symv) value {
	if !decide(tAnd(tCmp("<=", tInt(0), x.t), tCmp("<", x.t, tInt(0x80)))) {
		panic(unsupported("non-ASCII symbolic rune to string"))
	}
	return symstr{symv{types.Uint8, x.t}}
}

// strLess is the lexicographic order on byte strings as one term.
func strLess(a, b []value) *Term {
	n := len(a)
	if len(b) < n {
		n = len(b)
	}
	t := tBool(len(a) < len(b))
	for i := n - 1; i >= 0; i-- {
		x, y := termOf(a[i]), termOf(b[i])
		t = tOr(tCmp("<", x, y), tAnd(tCmp("=", x, y), t))
	}
	return t
}

// symstrIter ranges over a string with symbolic bytes. A symbolic byte must be ASCII on the
// path (decided); concrete multi-byte sequences are decoded natively.
type symstrIter struct {
	s symstr
	i int
}

func (it *symstrIter) next() tuple {
	if it.i >= len(it.s) {
		return tuple{false, nil, nil}
	}
	i := it.i
	switch b := it.s[i].(type) {
	case symv:
		if !decide(tCmp("<", b.t, tInt(0x80))) {
			panic(unsupported("range over a string with a symbolic non-ASCII byte"))
		}
		it.i++
		return tuple{true, i, symv{types.Int32, b.t}}
	case byte:
		if b < 0x80 {
			it.i++
			return tuple{true, i, rune(b)}
		}
		// concrete lead byte: gather the concrete continuation bytes
		var buf []byte
		for j := i; j < len(it.s) && j < i+4; j++ {
			c, ok := it.s[j].(byte)
			if !ok {
				break
			}
			buf = append(buf, c)
		}
		r, n := utf8.DecodeRune(buf)
		it.i += n
		return tuple{true, i, r}
	}
	panic(unsupported("range over symstr: unexpected element"))
}
