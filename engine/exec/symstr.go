package exec

import (
	"fmt"
	"go/token"
	"go/types"
	"math/big"
)

// symstr is a string with concrete length whose bytes are uint8 constants or symv terms.
type symstr []value

func strBytes(v value) []value {
	switch v := v.(type) {
	case string:
		out := make([]value, len(v))
		for i := 0; i < len(v); i++ {
			out[i] = v[i]
		}
		return out
	case symstr:
		return []value(v)
	}
	panic(unsupported(fmt.Sprintf("strBytes %T", v)))
}

func mkStr(bs []value) value {
	conc := true
	for _, b := range bs {
		if _, ok := b.(symv); ok {
			conc = false
			break
		}
	}
	if conc {
		b := make([]byte, len(bs))
		for i := range bs {
			b[i] = bs[i].(byte)
		}
		return string(b)
	}
	return symstr(append([]value{}, bs...))
}

func isStrVal(v value) bool {
	switch v.(type) {
	case string, symstr:
		return true
	}
	return false
}

func symStrBinop(op token.Token, x, y value) value {
	xb, yb := strBytes(x), strBytes(y)
	switch op {
	case token.ADD:
		return mkStr(append(append([]value{}, xb...), yb...))
	case token.EQL, token.NEQ:
		var t *Term
		if len(xb) != len(yb) {
			t = tBool(false)
		} else {
			t = tBool(true)
			for i := range xb {
				t = tAnd(t, tCmp("=", termOf(xb[i]), termOf(yb[i])))
			}
		}
		if op == token.NEQ {
			t = tNot(t)
		}
		return mkSym(types.Bool, t)
	}
	switch op {
	case token.LSS:
		return mkSym(types.Bool, strLess(xb, yb))
	case token.GTR:
		return mkSym(types.Bool, strLess(yb, xb))
	case token.LEQ:
		return mkSym(types.Bool, tNot(strLess(yb, xb)))
	case token.GEQ:
		return mkSym(types.Bool, tNot(strLess(xb, yb)))
	}
	panic(unsupported("string binop " + op.String() + " on symbolic string"))
}

// nonNegCopy returns a fresh variable in [0, hi] constrained to equal t (which the path condition
// already confines to that range): the definitional div/mod rules need a syntactic lower bound.
func nonNegCopy(t *Term, hi int64) *Term {
	if t.lo != nil && t.lo.Sign() >= 0 {
		return t
	}
	p := curPath()
	v := p.fresh("nn", big.NewInt(0), big.NewInt(hi))
	p.side(tCmp("=", v, t))
	v.def = &termDef{kind: "copy", of: t}
	return v
}

func termDivMod(t *Term, c int64) (q, r *Term) {
	u64 := types.Typ[types.Uint64]
	x := mkSym(types.Uint64, t)
	return termOf(symBinop(token.QUO, u64, x, uint64(c))), termOf(symBinop(token.REM, u64, x, uint64(c)))
}

// runeToStr converts a symbolic rune/byte to a string: the UTF-8 encoding of the rune (the
// replacement character for values that are no valid code points), as the language defines the
// conversion. The length is decided on the path (1..4 bytes).
func runeToStr(x symv) value {
	r := x.t
	if decide(tAnd(tCmp("<=", tInt(0), r), tCmp("<", r, tInt(0x80)))) {
		return symstr{symv{types.Uint8, r}}
	}
	invalid := tOr(tOr(tCmp("<", r, tInt(0)), tCmp("<", tInt(0x10FFFF), r)), tAnd(tCmp("<=", tInt(0xD800), r), tCmp("<=", r, tInt(0xDFFF))))
	if decide(invalid) {
		return symstr{byte(0xEF), byte(0xBF), byte(0xBD)}
	}
	rr := nonNegCopy(r, 0x10FFFF)
	b := func(base int64, t *Term) value { return symv{types.Uint8, tAdd(tInt(base), t)} }
	q1, m1 := termDivMod(rr, 64) // r div 64, r mod 64
	if decide(tCmp("<", r, tInt(0x800))) {
		return symstr{b(0xC0, q1), b(0x80, m1)}
	}
	q2, m2 := termDivMod(q1, 64) // r div 4096, (r div 64) mod 64
	if decide(tCmp("<", r, tInt(0x10000))) {
		return symstr{b(0xE0, q2), b(0x80, m2), b(0x80, m1)}
	}
	q3, m3 := termDivMod(q2, 64)
	return symstr{b(0xF0, q3), b(0x80, m3), b(0x80, m2), b(0x80, m1)}
}

// decodeRuneAt is the UTF-8 decoding step of `range` over a string (and of the conversion to
// []rune) at position i of a string whose bytes may be symbolic: it returns the rune as a term
// and the number of bytes consumed, deciding the shape of the sequence on the path. Invalid
// sequences yield the replacement character and consume one byte (Go spec, "For statements").
func decodeRuneAt(s symstr, i int) (value, int) {
	bt := func(j int) *Term { return termOf(s[j]) }
	in := func(t *Term, lo, hi int64) *Term { return tAnd(tCmp("<=", tInt(lo), t), tCmp("<=", t, tInt(hi))) }
	bad := func() (value, int) { return rune(0xFFFD), 1 }
	b0 := bt(i)
	if decide(tCmp("<", b0, tInt(0x80))) {
		if c, ok := s[i].(byte); ok {
			return rune(c), 1
		}
		return symv{types.Int32, b0}, 1
	}
	size, lo1, hi1, base := 0, int64(0x80), int64(0xBF), int64(0)
	switch {
	case decide(tOr(in(b0, 0x80, 0xC1), in(b0, 0xF5, 0xFF))):
		return bad()
	case decide(in(b0, 0xC2, 0xDF)):
		size, base = 2, 0xC0
	case decide(tCmp("=", b0, tInt(0xE0))):
		size, base, lo1 = 3, 0xE0, 0xA0
	case decide(tCmp("=", b0, tInt(0xED))):
		size, base, hi1 = 3, 0xE0, 0x9F
	case decide(in(b0, 0xE1, 0xEF)):
		size, base = 3, 0xE0
	case decide(tCmp("=", b0, tInt(0xF0))):
		size, base, lo1 = 4, 0xF0, 0x90
	case decide(tCmp("=", b0, tInt(0xF4))):
		size, base, hi1 = 4, 0xF0, 0x8F
	default:
		size, base = 4, 0xF0
	}
	if len(s)-i < size {
		return bad()
	}
	if !decide(in(bt(i+1), lo1, hi1)) {
		return bad()
	}
	for j := 2; j < size; j++ {
		if !decide(in(bt(i+j), 0x80, 0xBF)) {
			return bad()
		}
	}
	r := tSub(b0, tInt(base))
	for j := 1; j < size; j++ {
		r = tAdd(tMulC(r, big.NewInt(64)), tSub(bt(i+j), tInt(0x80)))
	}
	if r.op == "const" {
		return rune(r.val.Int64()), size
	}
	return symv{types.Int32, r}, size
}

// strLess is the lexicographic order on byte strings as one term.
func strLess(a, b []value) *Term {
	n := len(a)
	if len(b) < n {
		n = len(b)
	}
	t := tBool(len(a) < len(b))
	for i := n - 1; i >= 0; i-- {
		x, y := termOf(a[i]), termOf(b[i])
		t = tOr(tCmp("<", x, y), tAnd(tCmp("=", x, y), t))
	}
	return t
}

// symstrIter ranges over a string with symbolic bytes. A symbolic byte must be ASCII on the
// path (decided); concrete multi-byte sequences are decoded natively.
type symstrIter struct {
	s symstr
	i int
}

func (it *symstrIter) next() tuple {
	if it.i >= len(it.s) {
		return tuple{false, nil, nil}
	}
	i := it.i
	r, n := decodeRuneAt(it.s, i)
	it.i += n
	return tuple{true, i, r}
}
