package exec

import (
	"fmt"
	"go/token"
	"go/types"
)

// symstr is a string with concrete length whose bytes are uint8 constants or symv terms.
type symstr []value

func strBytes(v value) []value {
	switch v := v.(type) {
	case string:
		out := make([]value, len(v))
		for i := 0; i < len(v); i++ {
			out[i] = v[i]
		}
		return out
	case symstr:
		return []value(v)
	}
	panic(unsupported(fmt.Sprintf("strBytes %T", v)))
}

func mkStr(bs []value) value {
	conc := true
	for _, b := range bs {
		if _, ok := b.(symv); ok {
			conc = false
			break
		}
	}
	if conc {
		b := make([]byte, len(bs))
		for i := range bs {
			b[i] = bs[i].(byte)
		}
		return string(b)
	}
	return symstr(append([]value{}, bs...))
}

func isStrVal(v value) bool {
	switch v.(type) {
	case string, symstr:
		return true
	}
	return false
}

func symStrBinop(op token.Token, x, y value) value {
	xb, yb := strBytes(x), strBytes(y)
	switch op {
	case token.ADD:
		return mkStr(append(append([]value{}, xb...), yb...))
	case token.EQL, token.NEQ:
		var t *Term
		if len(xb) != len(yb) {
			t = tBool(false)
		} else {
			t = tBool(true)
			for i := range xb {
				t = tAnd(t, tCmp("=", termOf(xb[i]), termOf(yb[i])))
			}
		}
		if op == token.NEQ {
			t = tNot(t)
		}
		return mkSym(types.Bool, t)
	}
	switch op {
	case token.LSS:
		return mkSym(types.Bool, strLess(xb, yb))
	case token.GTR:
		return mkSym(types.Bool, strLess(yb, xb))
	case token.LEQ:
		return mkSym(types.Bool, tNot(strLess(yb, xb)))
	case token.GEQ:
		return mkSym(types.Bool, tNot(strLess(xb, yb)))
	}
	panic(unsupported("string binop " + op.String() + " on symbolic string"))
}

// runeToStr converts a symbolic rune/byte to a 1-byte string, deciding that it is ASCII.
func runeToStr(x symv) value {
	if !decide(tAnd(tCmp("<=", tInt(0), x.t), tCmp("<", x.t, tInt(0x80)))) {
		panic(unsupported("non-ASCII symbolic rune to string"))
	}
	return symstr{symv{types.Uint8, x.t}}
}

// strLess is the lexicographic order on byte strings as one term.
func strLess(a, b []value) *Term {
	n := len(a)
	if len(b) < n {
		n = len(b)
	}
	t := tBool(len(a) < len(b))
	for i := n - 1; i >= 0; i-- {
		x, y := termOf(a[i]), termOf(b[i])
		t = tOr(tCmp("<", x, y), tAnd(tCmp("=", x, y), t))
	}
	return t
}
