package exec

import (
	"fmt"
	"go/token"
	"go/types"
)

func deepEq(x, y value) bool {
	if isSymOrSymstr(x) || isSymOrSymstr(y) {
		return decide(valEqTerm(x, y))
	}
	switch x := x.(type) {
	case iface:
		y, ok := y.(iface)
		if !ok {
			return false
		}
		if x.t == nil || y.t == nil {
			return x.t == nil && y.t == nil
		}
		return types.Identical(x.t, y.t) && deepEq(x.v, y.v)
	case *value:
		y, ok := y.(*value)
		if !ok {
			return false
		}
		if x == nil || y == nil {
			return x == y
		}
		return x == y || deepEq(*x, *y)
	case structure:
		y, ok := y.(structure)
		if !ok || len(x) != len(y) {
			return false
		}
		for i := range x {
			if !deepEq(x[i], y[i]) {
				return false
			}
		}
		return true
	case []value:
		y, ok := y.([]value)
		if !ok || len(x) != len(y) {
			return false
		}
		for i := range x {
			if !deepEq(x[i], y[i]) {
				return false
			}
		}
		return true
	case *omap:
		y, ok := y.(*omap)
		if !ok {
			return false
		}
		if x == nil || y == nil {
			return (x == nil || len(x.keys) == 0) && (y == nil || len(y.keys) == 0) && (x == nil) == (y == nil)
		}
		if len(x.keys) != len(y.keys) {
			return false
		}
		for i, k := range x.keys {
			w, ok := y.lookup(k)
			if !ok || !deepEq(x.vals[i], w) {
				return false
			}
		}
		return true
	case map[value]value:
		y, ok := y.(map[value]value)
		if !ok || len(x) != len(y) {
			return false
		}
		for k, v := range x {
			w, ok := y[k]
			if !ok || !deepEq(v, w) {
				return false
			}
		}
		return true
	}
	return x == y
}

func init() {
	externals["(reflect.Value).SetString"] = func(fr *frame, args []value) value {
		a := rV2A(args[0])
		if a == nil {
			panic("reflect.Value.SetString using unaddressable value")
		}
		*a = args[1]
		return nil
	}
	externals["reflect.Append"] = func(fr *frame, args []value) value {
		t := rV2T(args[0]).t
		sl, _ := rV2V(args[0]).([]value)
		out := append([]value{}, sl...)
		for _, e := range args[1].([]value) {
			out = append(out, rV2V(e))
		}
		return makeReflectValue(t, out)
	}
	externals["(reflect.Value).FieldByName"] = func(fr *frame, args []value) value {
		st := rV2T(args[0]).t.Underlying().(*types.Struct)
		for i := 0; i < st.NumFields(); i++ {
			if st.Field(i).Name() == args[1].(string) {
				return ext۰reflect۰Value۰Field(fr, []value{args[0], i})
			}
		}
		return structure{rtype{nil}, nil, (*value)(nil)}
	}
	externals["(reflect.rtype).Implements"] = func(fr *frame, args []value) value {
		t := args[0].(rtype).t
		it := args[1].(iface).v.(rtype).t.Underlying().(*types.Interface)
		return types.Implements(t, it)
	}
	externals["reflect.DeepEqual"] = func(fr *frame, args []value) value { return deepEq(args[0], args[1]) }
	externals["github.com/google/go-cmp/cmp.Comparer"] = func(fr *frame, args []value) value { return iface{} }
	externals["github.com/google/go-cmp/cmp.Equal"] = func(fr *frame, args []value) value { return deepEq(args[0], args[1]) }
	for _, m := range []string{"(*sync.Mutex).Lock", "(*sync.Mutex).Unlock", "(*sync.RWMutex).Lock", "(*sync.RWMutex).Unlock", "(*sync.RWMutex).RLock", "(*sync.RWMutex).RUnlock"} {
		externals[m] = func(fr *frame, args []value) value { return nil }
	}
	externals["sort.SliceStable"] = func(fr *frame, args []value) value {
		sl := args[0].(iface).v.([]value)
		less := args[1]
		// stable insertion sort calling the interpreted less(i, j)
		for i := 1; i < len(sl); i++ {
			for j := i; j > 0; j-- {
				r := call(fr.i, fr, 0, less, []value{j, j - 1})
				if sv, ok := r.(symv); ok {
					if !decide(sv.t) {
						break
					}
				} else if !r.(bool) {
					break
				}
				sl[j], sl[j-1] = sl[j-1], sl[j]
			}
		}
		return nil
	}
	externals["sort.Slice"] = externals["sort.SliceStable"] // any order among equals is allowed; the stable one is chosen
	externals["sort.Strings"] = func(fr *frame, args []value) value {
		sl := args[0].([]value)
		less := func(i, j int) bool {
			a, aok := sl[i].(string)
			b, bok := sl[j].(string)
			if aok && bok {
				return a < b
			}
			r := symStrBinop(token.LSS, sl[i], sl[j])
			if sv, ok := r.(symv); ok {
				return decide(sv.t)
			}
			return r.(bool)
		}
		for i := 1; i < len(sl); i++ {
			for j := i; j > 0 && less(j, j-1); j-- {
				sl[j], sl[j-1] = sl[j-1], sl[j]
			}
		}
		return nil
	}
	_ = fmt.Sprint
}
