package exec

// Model-guided decisions: a satisfying assignment of the path condition is kept and extended
// along the path, so that of the two feasibility questions of a branch (c, not c) the one the
// model already witnesses needs no solver call. Values of definitional variables (quotient,
// remainder, wrap) are computed from their definitions; variables created after the model was
// fetched and not constrained yet take the low end of their range. The evaluator is only ever
// used to claim "satisfiable" with an explicit witness; GOSYM_PARANOID=1 re-asks the solver.

import (
	"math/big"
	"os"
	"reflect"
	"strings"
)

type termDef struct {
	kind string // "divq", "divr", "wrapy", "wrapk", "copy"
	of   *Term
	c    *big.Int // divisor / modulus
	lo   *big.Int // wrap: low end of the target range
}

var paranoid = os.Getenv("GOSYM_PARANOID") != ""

var big0, big1 = big.NewInt(0), big.NewInt(1)

func floorDivMod(x, c *big.Int) (q, r *big.Int) {
	q, r = new(big.Int), new(big.Int)
	q.DivMod(x, c, r) // Euclidean: 0 <= r < |c|
	return
}

// memoKey is the reserved model key under which evaluation results are memoised per model
// (values only ever get added to a model, so cached results stay valid).
type evalMemo map[*Term]*big.Int


// evalTerm evaluates t under model m, extending m for variables it does not mention yet.
func evalTerm(t *Term, m map[string]*big.Int) *big.Int {
	switch t.op {
	case "const", "bconst", "var":
		return evalTerm1(t, m)
	}
	memo := curMemo(m)
	if v, ok := memo[t]; ok {
		return v
	}
	v := evalTerm1(t, m)
	memo[t] = v
	return v
}

var lastMemoModel map[string]*big.Int
var lastMemo evalMemo

// curMemo returns the memo table of model m (one table is kept: the most recent model's).
func curMemo(m map[string]*big.Int) evalMemo {
	if lastMemo == nil || !sameMap(lastMemoModel, m) {
		lastMemoModel, lastMemo = m, evalMemo{}
	}
	return lastMemo
}

func evalTerm1(t *Term, m map[string]*big.Int) *big.Int {
	switch t.op {
	case "const":
		return t.val
	case "bconst":
		if t.bval {
			return big1
		}
		return big0
	case "var":
		if v, ok := m[t.name]; ok {
			return v
		}
		var v *big.Int
		switch {
		case t.def != nil:
			x := evalTerm(t.def.of, m)
			switch t.def.kind {
			case "divq":
				v, _ = floorDivMod(x, t.def.c)
			case "divr":
				_, v = floorDivMod(x, t.def.c)
			case "wrapy":
				_, r := floorDivMod(new(big.Int).Sub(x, t.def.lo), t.def.c)
				v = r.Add(r, t.def.lo)
			case "wrapk":
				q, _ := floorDivMod(new(big.Int).Sub(x, t.def.lo), t.def.c)
				v = q
			case "copy":
				v = x
			}
		case t.isBool:
			v = big0
		case t.lo != nil && t.loInit != nil:
			v = t.loInit
		default:
			v = big0
		}
		m[t.name] = v
		return v
	case "+":
		return new(big.Int).Add(evalTerm(t.args[0], m), evalTerm(t.args[1], m))
	case "-":
		return new(big.Int).Sub(evalTerm(t.args[0], m), evalTerm(t.args[1], m))
	case "*":
		return new(big.Int).Mul(evalTerm(t.args[0], m), evalTerm(t.args[1], m))
	case "neg":
		return new(big.Int).Neg(evalTerm(t.args[0], m))
	case "ite":
		if evalTerm(t.args[0], m).Sign() != 0 {
			return evalTerm(t.args[1], m)
		}
		return evalTerm(t.args[2], m)
	case "=":
		return b2i(evalTerm(t.args[0], m).Cmp(evalTerm(t.args[1], m)) == 0)
	case "<":
		return b2i(evalTerm(t.args[0], m).Cmp(evalTerm(t.args[1], m)) < 0)
	case "<=":
		return b2i(evalTerm(t.args[0], m).Cmp(evalTerm(t.args[1], m)) <= 0)
	case "not":
		return b2i(evalTerm(t.args[0], m).Sign() == 0)
	case "and":
		for _, a := range t.args {
			if evalTerm(a, m).Sign() == 0 {
				return big0
			}
		}
		return big1
	case "or":
		for _, a := range t.args {
			if evalTerm(a, m).Sign() != 0 {
				return big1
			}
		}
		return big0
	}
	panic(unsupported("evalTerm: operator " + t.op))
}

func sameMap(a, b map[string]*big.Int) bool {
	return reflect.ValueOf(a).Pointer() == reflect.ValueOf(b).Pointer()
}

func b2i(b bool) *big.Int {
	if b {
		return big1
	}
	return big0
}

// syncModel re-establishes whether the kept model satisfies the whole path condition.
func (p *pathState) syncModel() {
	if !p.modelOK {
		return
	}
	for p.checked < len(p.order) {
		if evalTerm(p.order[p.checked], p.model).Sign() == 0 {
			p.modelOK = false
			p.model = nil
			return
		}
		p.checked++
	}
}

// sat answers whether pathcond and t is satisfiable; on "sat" e.witness is a model of it.
func (e *Explorer) sat(t *Term) string {
	p := e.cur
	if p.model == nil && len(p.order) == 0 {
		p.model = map[string]*big.Int{}
		p.modelOK = true
	}
	p.syncModel()
	if p.modelOK && evalTerm(t, p.model).Sign() != 0 {
		e.Stats.ModelHits++
		if paranoid {
			if r := e.feasible(t); r != "sat" {
				panic("paranoid: model says sat, solver says " + r + " for " + t.String())
			}
		}
		e.witness = p.model
		return "sat"
	}
	r := e.feasible(t)
	if r == "sat" {
		e.witness = e.fetchModel()
	}
	return r
}

// adopt makes w (a model of the path condition including its newest constraint) the kept model.
func (p *pathState) adopt(w map[string]*big.Int) {
	if w == nil {
		return
	}
	p.model = w
	p.modelOK = true
	p.checked = len(p.order)
}

// fetchModel reads the values of all declared variables after a sat answer.
func (e *Explorer) fetchModel() map[string]*big.Int {
	p := e.cur
	m := map[string]*big.Int{}
	if len(p.vars) == 0 {
		return m
	}
	var sb strings.Builder
	sb.WriteString("(get-value (")
	for _, v := range p.vars {
		sb.WriteString(v.name)
		sb.WriteByte(' ')
	}
	sb.WriteString("))\n")
	z := e.lastZ
	if z == nil {
		z = e.z
	}
	z.send(sb.String())
	depth, started := 0, false
	var ob strings.Builder
	for !started || depth > 0 {
		line := z.readLine()
		ob.WriteString(line)
		ob.WriteByte(' ')
		for _, c := range line {
			if c == '(' {
				depth++
				started = true
			} else if c == ')' {
				depth--
			}
		}
	}
	toks := strings.Fields(strings.NewReplacer("(", " ( ", ")", " ) ").Replace(ob.String()))
	// grammar: ( ( name value ) ... ) ; value := int | true | false | ( - int )
	i := 1
	for i < len(toks) && toks[i] == "(" {
		name := toks[i+1]
		i += 2
		var v *big.Int
		if toks[i] == "(" { // ( - n )
			n, _ := new(big.Int).SetString(toks[i+2], 10)
			v = n.Neg(n)
			i += 4
		} else {
			switch toks[i] {
			case "true":
				v = big1
			case "false":
				v = big0
			default:
				v, _ = new(big.Int).SetString(toks[i], 10)
			}
			i++
		}
		if v == nil {
			panic(unsupported("cannot parse model value for " + name))
		}
		m[name] = v
		i++ // ")"
	}
	return m
}

// inputsOf renders the harness inputs under model w.
func (e *Explorer) inputsOf(w map[string]*big.Int) []InputVal {
	var out []InputVal
	for _, v := range e.cur.inputs {
		x := evalTerm(v.t, w)
		s := x.String()
		if v.t.isBool {
			s = "false"
			if x.Sign() != 0 {
				s = "true"
			}
		}
		out = append(out, InputVal{Name: v.t.name, Kind: v.kind, Value: s})
	}
	return out
}
