package exec

import (
	"go/token"
	"go/types"

	"golang.org/x/tools/go/ssa"
)

// Single-goroutine models of sync.Map and sync/atomic (the executor runs one goroutine).
// sync.Map's contents are kept as an ordered, solver-aware map stored in the struct's own
// `dirty` field, so zeroing/fingerprinting of globals sees it.

func syncMapStore(fr *frame, recv value) **omap {
	cell := recv.(*value)
	st := (*cell).(structure)
	mt := fr.i.prog.ImportedPackage("sync").Type("Map").Type().Underlying().(*types.Struct)
	for i := 0; i < mt.NumFields(); i++ {
		if mt.Field(i).Name() == "dirty" {
			m, _ := st[i].(*omap)
			if m == nil {
				m = &omap{kt: types.NewInterfaceType(nil, nil)}
				st[i] = m
			}
			mm := m
			return &mm
		}
	}
	panic(unsupported("sync.Map: unexpected layout"))
}

func init() {
	externals["(*sync.Map).Load"] = func(fr *frame, args []value) value {
		m := *syncMapStore(fr, args[0])
		v, ok := m.lookup(args[1])
		if !ok {
			return tuple{iface{}, false}
		}
		return tuple{v, true}
	}
	externals["(*sync.Map).Store"] = func(fr *frame, args []value) value {
		(*syncMapStore(fr, args[0])).insert(args[1], args[2])
		return nil
	}
	externals["(*sync.Map).LoadOrStore"] = func(fr *frame, args []value) value {
		m := *syncMapStore(fr, args[0])
		if v, ok := m.lookup(args[1]); ok {
			return tuple{v, true}
		}
		m.insert(args[1], args[2])
		return tuple{args[2], false}
	}
	externals["(*sync.Map).LoadAndDelete"] = func(fr *frame, args []value) value {
		m := *syncMapStore(fr, args[0])
		v, ok := m.lookup(args[1])
		if !ok {
			return tuple{iface{}, false}
		}
		m.delete(args[1])
		return tuple{v, true}
	}
	externals["(*sync.Map).Delete"] = func(fr *frame, args []value) value {
		(*syncMapStore(fr, args[0])).delete(args[1])
		return nil
	}
	externals["(*sync.Map).Range"] = func(fr *frame, args []value) value {
		m := *syncMapStore(fr, args[0])
		keys := append([]value{}, m.keys...)
		for _, k := range keys {
			v, ok := m.lookup(k)
			if !ok {
				continue
			}
			if r := call(fr.i, fr, token.NoPos, args[1], []value{k, v}); !r.(bool) {
				break
			}
		}
		return nil
	}
	// sync.Pool: a free list kept in the struct's own `local` field (single goroutine)
	poolSlot := func(fr *frame, recv value) *value {
		cell := recv.(*value)
		st := (*cell).(structure)
		pt := fr.i.prog.ImportedPackage("sync").Type("Pool").Type().Underlying().(*types.Struct)
		for i := 0; i < pt.NumFields(); i++ {
			if pt.Field(i).Name() == "local" {
				return &st[i]
			}
		}
		panic(unsupported("sync.Pool: unexpected layout"))
	}
	// The free list mirrors what the runtime does for one goroutine that stays on its P and sees
	// no garbage collection: element 0 is the P's private slot (poolNone when empty), the rest is
	// the P's shared chain, whose head is the last element. Put fills the private slot, else pushes
	// the head; Get takes the private slot, else pops the head, else calls New.
	externals["(*sync.Pool).Put"] = func(fr *frame, args []value) value {
		if it, ok := args[1].(iface); ok && it.t == nil {
			return nil
		}
		slot := poolSlot(fr, args[0])
		stack, _ := (*slot).([]value)
		if len(stack) == 0 {
			*slot = []value{args[1]}
			return nil
		}
		ns := append([]value{}, stack...)
		if _, empty := ns[0].(poolNone); empty {
			ns[0] = args[1]
		} else {
			ns = append(ns, args[1])
		}
		*slot = ns
		return nil
	}
	externals["(*sync.Pool).Get"] = func(fr *frame, args []value) value {
		slot := poolSlot(fr, args[0])
		if stack, _ := (*slot).([]value); len(stack) > 0 {
			ns := append([]value{}, stack...)
			if _, empty := ns[0].(poolNone); !empty {
				v := ns[0]
				ns[0] = poolNone{}
				if len(ns) == 1 {
					ns = nil
				}
				*slot = ns
				return v
			}
			if len(ns) > 1 {
				v := ns[len(ns)-1]
				ns = ns[:len(ns)-1]
				if len(ns) == 1 {
					ns = nil
				}
				*slot = ns
				return v
			}
		}
		// New func() any
		cell := args[0].(*value)
		st := (*cell).(structure)
		pt := fr.i.prog.ImportedPackage("sync").Type("Pool").Type().Underlying().(*types.Struct)
		for i := 0; i < pt.NumFields(); i++ {
			if pt.Field(i).Name() == "New" {
				if fn := st[i]; fn != nil {
					if f, ok := fn.(*ssa.Function); ok && f == nil {
						return iface{}
					}
					if c, ok := fn.(*closure); ok && c == nil {
						return iface{}
					}
					return call(fr.i, fr, token.NoPos, fn, nil)
				}
			}
		}
		return iface{}
	}
	// sync/atomic on plain cells
	load := func(fr *frame, args []value) value { return *args[0].(*value) }
	store := func(fr *frame, args []value) value { *args[0].(*value) = args[1]; return nil }
	swap := func(fr *frame, args []value) value {
		p := args[0].(*value)
		old := *p
		*p = args[1]
		return old
	}
	for _, k := range []string{"Int32", "Int64", "Uint32", "Uint64", "Uintptr", "Pointer"} {
		externals["sync/atomic.Load"+k] = load
		externals["sync/atomic.Store"+k] = store
		externals["sync/atomic.Swap"+k] = swap
		k := k
		externals["sync/atomic.CompareAndSwap"+k] = func(fr *frame, args []value) value {
			p := args[0].(*value)
			if k == "Pointer" {
				if *p == args[1] {
					*p = args[2]
					return true
				}
				return false
			}
			if eqv, ok := binop(token.EQL, nil, *p, args[1]).(bool); ok && eqv {
				*p = args[2]
				return true
			}
			return false
		}
		if k != "Pointer" {
			externals["sync/atomic.Add"+k] = func(fr *frame, args []value) value {
				p := args[0].(*value)
				var t types.Type
				switch (*p).(type) {
				case int32:
					t = types.Typ[types.Int32]
				case int64:
					t = types.Typ[types.Int64]
				case uint32:
					t = types.Typ[types.Uint32]
				case uint64:
					t = types.Typ[types.Uint64]
				default:
					t = types.Typ[types.Uintptr]
				}
				*p = binop(token.ADD, t, *p, args[1])
				return *p
			}
		}
	}
}

// poolNone marks the empty private slot of the sync.Pool model.
type poolNone struct{}
