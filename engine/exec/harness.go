package exec

import (
	"fmt"
	"go/token"
	"go/types"
	"math/big"
)

var harnessAPI = map[string]externalFn{}

func newInput(name string, k types.BasicKind, kind string) value {
	p := curPath()
	if k == types.Bool {
		v := p.freshBool(name)
		p.inputs = append(p.inputs, inputVar{v, kind})
		return symv{types.Bool, v}
	}
	lo, hi := kindRange(k)
	v := p.fresh(name, lo, hi)
	p.inputs = append(p.inputs, inputVar{v, kind})
	return symv{k, v}
}

// jobParams are the concrete harness parameters (bounds) of the current job.
var jobParams = map[string]int{}

func init() {
	harnessAPI["symU64"] = func(fr *frame, args []value) value { return newInput("u", types.Uint64, "u64") }
	harnessAPI["symI64"] = func(fr *frame, args []value) value { return newInput("i", types.Int64, "i64") }
	harnessAPI["symU8"] = func(fr *frame, args []value) value { return newInput("b", types.Uint8, "u8") }
	harnessAPI["symByte"] = func(fr *frame, args []value) value { return newInput("b", types.Uint8, "u8") }
	harnessAPI["symBool"] = func(fr *frame, args []value) value { return newInput("p", types.Bool, "bool") }
	harnessAPI["inEngine"] = func(fr *frame, args []value) value { return true }
	harnessAPI["param"] = func(fr *frame, args []value) value {
		v, ok := jobParams[args[0].(string)]
		if !ok {
			panic(unsupported("harness parameter not set: " + args[0].(string)))
		}
		return v
	}
	harnessAPI["note"] = func(fr *frame, args []value) value {
		p := curPath()
		if len(p.notes) < 16 {
			p.notes = append(p.notes, fmt.Sprint(toNative(fr, args[0])))
		}
		return nil
	}
	harnessAPI["symInt"] = func(fr *frame, args []value) value {
		v := newInput("n", types.Int, "int").(symv)
		p := curPath()
		p.side(tCmp("<=", termOf(args[0]), v.t))
		p.side(tCmp("<=", v.t, termOf(args[1])))
		v.t.lo, v.t.hi = termOf(args[0]).val, termOf(args[1]).val
		v.t.loInit = v.t.lo
		return v
	}
	// concretize(v int) int: fork on every feasible value in [lo,hi]
	harnessAPI["concretize"] = func(fr *frame, args []value) value {
		sv, ok := args[0].(symv)
		if !ok {
			return args[0]
		}
		if sv.t.lo == nil || sv.t.hi == nil {
			panic(unsupported("concretize of unbounded value"))
		}
		for x := new(big.Int).Set(sv.t.lo); x.Cmp(sv.t.hi) < 0; x.Add(x, big.NewInt(1)) {
			if decide(tCmp("=", sv.t, tConst(new(big.Int).Set(x)))) {
				return concretize(sv.kind, tConst(new(big.Int).Set(x)))
			}
		}
		return concretize(sv.kind, tConst(sv.t.hi))
	}
	harnessAPI["assume"] = func(fr *frame, args []value) value {
		c := termOf(args[0])
		if c.op == "bconst" {
			if !c.bval {
				panic(pathAbort{"assume false"})
			}
			return nil
		}
		e := theExplorer
		if e.cur.pos < len(e.cur.prefix) {
			// replaying: assumption was feasible before
			e.cur.side(c)
			return nil
		}
		r := e.sat(c)
		if r != "sat" {
			if r != "unsat" {
				panic(unsupported("solver answered " + r + " on an assumption"))
			}
			panic(pathAbort{"assume infeasible"})
		}
		w := e.witness
		e.cur.side(c)
		e.cur.adopt(w)
		return nil
	}
	// check(c, label): the property. checkKF(c, label, sig, sigName): the same, with the region
	// `sig` of the input space named sigName treated separately (known-finding normal form).
	doCheck := func(c *Term, label string, sig *Term, sigName string) {
		e := theExplorer
		e.cur.checks++
		replaying := e.cur.pos < len(e.cur.prefix)
		if replaying {
			// already discharged when this prefix was first explored
			e.cur.side(c)
			return
		}
		if c.op == "bconst" && c.bval {
			return
		}
		if sig != nil && !(sig.op == "bconst" && !sig.bval) {
			// violation outside the named region?
			out := tAnd(tNot(c), tNot(sig))
			if !(out.op == "bconst" && !out.bval) {
				switch r := e.sat(out); r {
				case "sat":
					e.addFinding(Finding{Kind: "check", Label: label, Inputs: e.inputsOf(e.witness)})
				case "unsat":
				default:
					panic(unsupported("solver answered " + r + " on check " + label))
				}
			}
			in := tAnd(tNot(c), sig)
			if !(in.op == "bconst" && !in.bval) {
				switch r := e.sat(in); r {
				case "sat":
					e.addFinding(Finding{Kind: "check", Label: label, Sig: sigName, Inputs: e.inputsOf(e.witness)})
				case "unsat":
				default:
					panic(unsupported("solver answered " + r + " on check " + label))
				}
			}
		} else {
			switch r := e.sat(tNot(c)); r {
			case "sat":
				e.addFinding(Finding{Kind: "check", Label: label, Inputs: e.inputsOf(e.witness)})
			case "unsat":
			default:
				panic(unsupported("solver answered " + r + " on check " + label))
			}
		}
		if c.op == "bconst" {
			panic(pathAbort{"check failed concretely"})
		}
		// continue under the assumption that the check holds (if that is still feasible)
		if r := e.sat(c); r != "sat" {
			if r != "unsat" {
				panic(unsupported("solver answered " + r + " after check " + label))
			}
			panic(pathAbort{"check fails on the whole path"})
		}
		w := e.witness
		e.cur.side(c)
		e.cur.adopt(w)
	}
	harnessAPI["check"] = func(fr *frame, args []value) value {
		doCheck(termOf(args[0]), args[1].(string), nil, "")
		return nil
	}
	harnessAPI["checkKF"] = func(fr *frame, args []value) value {
		doCheck(termOf(args[0]), args[1].(string), termOf(args[2]), args[3].(string))
		return nil
	}
	harnessAPI["reach"] = func(fr *frame, args []value) value {
		theExplorer.cur.reached[args[0].(string)] = true
		return nil
	}
	// mathematical integers
	harnessAPI["mU"] = func(fr *frame, args []value) value { return symm{termOf(args[0])} }
	harnessAPI["mI"] = func(fr *frame, args []value) value { return symm{termOf(args[0])} }
	harnessAPI["mNeg"] = func(fr *frame, args []value) value { return symm{tSub(tInt(0), args[0].(symm).t)} }
	harnessAPI["mAdd"] = func(fr *frame, args []value) value { return symm{tAdd(args[0].(symm).t, args[1].(symm).t)} }
	harnessAPI["mMulPow10"] = func(fr *frame, args []value) value {
		e := asInt64(args[1])
		return symm{tMulC(args[0].(symm).t, new(big.Int).Exp(big.NewInt(10), big.NewInt(e), nil))}
	}
	harnessAPI["mIte"] = func(fr *frame, args []value) value {
		c := termOf(args[0])
		if c.op == "bconst" {
			if c.bval {
				return args[1]
			}
			return args[2]
		}
		return symm{mkTerm(&Term{op: "ite", args: []*Term{c, args[1].(symm).t, args[2].(symm).t}})}
	}
	harnessAPI["mSub"] = func(fr *frame, args []value) value { return symm{tSub(args[0].(symm).t, args[1].(symm).t)} }
	harnessAPI["symNot"] = func(fr *frame, args []value) value { return mkSym(types.Bool, tNot(termOf(args[0]))) }
	harnessAPI["symChoice"] = func(fr *frame, args []value) value {
		n := int(asInt64(args[0]))
		if n <= 1 {
			return 0
		}
		p := curPath()
		v := p.fresh("c", big.NewInt(0), big.NewInt(int64(n-1)))
		p.inputs = append(p.inputs, inputVar{v, "int"})
		// the variable is fresh and constrained only by its range and by the exclusions made
		// here, so every remaining value is feasible: the n-way fork needs no solver call
		val := n - 1
		for x := 0; x < n-1; x++ {
			if decideFree(tCmp("=", v, tInt(int64(x)))) {
				val = x
				break
			}
		}
		if p.modelOK && p.model != nil {
			p.model[v.name] = big.NewInt(int64(val))
		}
		return val
	}
	harnessAPI["mLe"] = func(fr *frame, args []value) value {
		return mkSym(types.Bool, tCmp("<=", args[0].(symm).t, args[1].(symm).t))
	}
	harnessAPI["symAnd"] = func(fr *frame, args []value) value {
		return mkSym(types.Bool, tAnd(termOf(args[0]), termOf(args[1])))
	}
	harnessAPI["symOr"] = func(fr *frame, args []value) value {
		return mkSym(types.Bool, tOr(termOf(args[0]), termOf(args[1])))
	}
	harnessAPI["mLess"] = func(fr *frame, args []value) value {
		return mkSym(types.Bool, tCmp("<", args[0].(symm).t, args[1].(symm).t))
	}
	harnessAPI["mEq"] = func(fr *frame, args []value) value {
		return mkSym(types.Bool, tCmp("=", args[0].(symm).t, args[1].(symm).t))
	}

	// intrinsics at assembly leaves
	externals["internal/bytealg.IndexByte"] = func(fr *frame, args []value) value {
		s := args[0].([]value)
		for i, b := range s {
			eq := binop(token.EQL, types.Typ[types.Uint8], b, args[1])
			if sv, ok := eq.(symv); ok {
				if decide(sv.t) {
					return i
				}
			} else if eq.(bool) {
				return i
			}
		}
		return -1
	}
	externals["bytes.IndexByte"] = externals["internal/bytealg.IndexByte"]
	externals["internal/bytealg.Count"] = func(fr *frame, args []value) value {
		s := args[0].([]value)
		n := 0
		for _, b := range s {
			eq := binop(token.EQL, types.Typ[types.Uint8], b, args[1])
			if sv, ok := eq.(symv); ok {
				if decide(sv.t) {
					n++
				}
			} else if eq.(bool) {
				n++
			}
		}
		return n
	}
	externals["internal/bytealg.MakeNoZero"] = func(fr *frame, args []value) value {
		n := asInt64(args[0])
		s := make([]value, n)
		for i := range s {
			s[i] = uint8(0)
		}
		return s
	}
}

