package exec

import (
	"go/token"
	"go/types"
)

// valEqTerm is Go's == on two values of the same static type as a term: structural on
// structs, arrays and interfaces, identity on pointers, with symbolic scalars and strings
// compared symbolically. Used for == on composite values and for map keys.
func valEqTerm(x, y value) *Term {
	switch x := x.(type) {
	case symv, symm:
		return tCmpEq(termOf(x), termOf(y))
	case symstr:
		return termOf(symStrBinop(token.EQL, x, y))
	case string:
		if _, ok := y.(symstr); ok {
			return termOf(symStrBinop(token.EQL, x, y))
		}
		ys, ok := y.(string)
		return tBool(ok && x == ys)
	case structure:
		ys, ok := y.(structure)
		if !ok || len(x) != len(ys) {
			return tBool(false)
		}
		t := tBool(true)
		for i := range x {
			t = tAnd(t, valEqTerm(x[i], ys[i]))
		}
		return t
	case array:
		ys, ok := y.(array)
		if !ok || len(x) != len(ys) {
			return tBool(false)
		}
		t := tBool(true)
		for i := range x {
			t = tAnd(t, valEqTerm(x[i], ys[i]))
		}
		return t
	case iface:
		yi, ok := y.(iface)
		if !ok {
			return tBool(false)
		}
		if x.t == nil || yi.t == nil {
			return tBool(x.t == nil && yi.t == nil)
		}
		if !types.Identical(x.t, yi.t) {
			return tBool(false)
		}
		return valEqTerm(x.v, yi.v)
	}
	if isSym(y) {
		return tCmpEq(termOf(x), termOf(y))
	}
	if _, ok := y.(symstr); ok {
		return termOf(symStrBinop(token.EQL, x, y))
	}
	// concrete leaves: host equality on the dynamic value (pointers, basic values)
	return tBool(hostEq(x, y))
}

func tCmpEq(a, b *Term) *Term {
	if a.isBool || b.isBool {
		return tBoolEq(a, b)
	}
	return tCmp("=", a, b)
}

func hostEq(x, y value) (eq bool) {
	defer func() {
		if recover() != nil {
			panic(unsupported("== on values the engine cannot compare"))
		}
	}()
	return x == y
}
