package exec

import (
	"fmt"
	"go/token"
	"go/types"
	"os"
	"sort"
	"strings"
	"time"

	"golang.org/x/tools/go/packages"
	"golang.org/x/tools/go/ssa"
	"golang.org/x/tools/go/ssa/ssautil"
)

// covPkgs are the packages whose executed functions are reported as "functions encoded".
var covPkgs = map[string]bool{}
var covFuncs = map[*ssa.Function]int{}

// Session is a loaded program (the repository's current source plus overlaid harness files)
// with package initialisation done; it executes jobs one after the other.
type Session struct {
	prog     *ssa.Program
	i        *interpreter
	target   *ssa.Package
	LoadTime time.Duration
	InitSkipped []string
	z        *z3proc
	fnNames  map[string]bool
	fp0      uint64 // fingerprint of the repository packages' globals after initialisation
	Reinits  int
}

// Load type-checks dir's packages with the overlay, builds SSA for the whole program
// (standard library included) and runs the whitelisted package initialisers concretely.
func Load(dir string, overlay map[string][]byte, patterns []string, pkgPath string) (*Session, error) {
	t0 := time.Now()
	cfg := &packages.Config{Mode: packages.LoadAllSyntax, Dir: dir, Overlay: overlay,
		Env: append(os.Environ(), "GOFLAGS=-mod=mod", "GOPROXY=off", "GOSUMDB=off", "GOTOOLCHAIN=local")}
	pkgs, err := packages.Load(cfg, patterns...)
	if err != nil {
		return nil, err
	}
	var errs []string
	packages.Visit(pkgs, nil, func(p *packages.Package) {
		for _, e := range p.Errors {
			errs = append(errs, e.Error())
		}
	})
	if len(errs) > 0 {
		return nil, fmt.Errorf("harness-stale: load errors: %s", strings.Join(errs, "; "))
	}
	prog, _ := ssautil.AllPackages(pkgs, ssa.InstantiateGenerics)
	prog.Build()
	var target *ssa.Package
	for _, p := range prog.AllPackages() {
		if p.Pkg.Path() == pkgPath {
			target = p
		}
		if strings.HasPrefix(p.Pkg.Path(), "github.com/openconfig/goyang") {
			covPkgs[p.Pkg.Path()] = true
		}
	}
	if target == nil {
		return nil, fmt.Errorf("package %s not found", pkgPath)
	}
	i := &interpreter{
		prog:       prog,
		globals:    make(map[*ssa.Global]*value),
		sizes:      &types.StdSizes{WordSize: 8, MaxAlign: 8},
		goroutines: 1,
	}
	i.runtimeErrorString = prog.ImportedPackage("runtime").Type("errorString").Object().Type()
	initReflect(i)
	for _, pkg := range prog.AllPackages() {
		for _, m := range pkg.Members {
			if v, ok := m.(*ssa.Global); ok {
				cell := zero(mustDeref(v.Type()))
				i.globals[v] = &cell
			}
		}
	}
	// best-effort package initialisation: whitelisted packages only
	white := map[string]bool{"unicode/utf8": true, "strings": true, "bytes": true, "errors": true, "strconv": true, "sort": true,
		"unicode": true, "io": true, "math": true, "math/bits": true, "path/filepath": true, "path": true, "io/ioutil": true}
	for _, pkg := range prog.AllPackages() {
		if g, ok := pkg.Members["init$guard"].(*ssa.Global); ok && !white[pkg.Pkg.Path()] && !covPkgs[pkg.Pkg.Path()] {
			*i.globals[g] = true
		}
	}
	theExplorer = &Explorer{}
	tInit := time.Now()
	lenientInit = true
	func() {
		defer func() {
			if r := recover(); r != nil {
				err = fmt.Errorf("package initialisation aborted: %v", r)
			}
		}()
		call(i, nil, token.NoPos, target.Func("init"), nil)
	}()
	lenientInit = false
	if err != nil {
		return nil, err
	}
	if os.Getenv("GOSYM_DEBUG") != "" {
		fmt.Fprintf(os.Stderr, "init took %v\n", time.Since(tInit))
		t1 := time.Now()
		sx := &Session{prog: prog, i: i, target: target}
		sx.Reinit()
		fmt.Fprintf(os.Stderr, "re-init of repository packages took %v\n", time.Since(t1))
	}
	s := &Session{prog: prog, i: i, target: target, LoadTime: time.Since(t0), InitSkipped: initSkipped}
	for k := range covFuncs {
		delete(covFuncs, k)
	}
	return s, nil
}

// Job is one unit of exploration: a harness function, its concrete parameters, and a set of
// decision prefixes to explore depth-first for at most MaxPaths paths.
type Job struct {
	Fn         string            `json:"fn"`
	Params     map[string]int    `json:"params"`
	Prefixes   []string          `json:"prefixes"`
	MaxPaths   int               `json:"max_paths"`
	MaxSteps   int               `json:"max_steps"`
	Cross      bool              `json:"cross,omitempty"`
	MaxDepth   int               `json:"max_depth"`
	TimeoutMs  int               `json:"timeout_ms"`
	Redirects  map[string]string `json:"redirects,omitempty"`
	MapOrder   string            `json:"map_order,omitempty"` // substring of the key/map type whose ranges may be perturbed
	MapBudget  int               `json:"map_budget,omitempty"`
	SampleEach int               `json:"sample_each,omitempty"`
	Z3Log      string            `json:"z3log,omitempty"`
	Summaries  []string          `json:"summaries,omitempty"` // pure callees merged into one term per call
}

type FuncCov struct {
	Name    string `json:"name"`
	Instrs  int    `json:"instrs"`
	Calls   int    `json:"calls"`
	Harness bool   `json:"harness,omitempty"` // defined in an overlaid harness file, not in the repository
}

type JobResult struct {
	Fn          string         `json:"fn"`
	Paths       int            `json:"paths"`
	Aborted     int            `json:"aborted"`
	Steps       int64          `json:"steps"`
	Blocks      int64          `json:"blocks"`
	Decisions   int            `json:"decisions"`
	Checks      int            `json:"checks"`
	Queries     int            `json:"queries"`
	Sat         int            `json:"sat"`
	Unsat       int            `json:"unsat"`
	Unknown     int            `json:"unknown"`
	SolverMs    int64          `json:"solver_ms"`
	MaxQueryMs  int64          `json:"max_query_ms"`
	ModelHits   int            `json:"model_hits"`
	Fallbacks   int            `json:"fallbacks"`
	CrossChecked int           `json:"cross_checked"`
	Reinits     int            `json:"reinits"` // paths after which package-level state had to be re-initialised
	Reached     map[string]int `json:"reached"`
	Findings    []Finding      `json:"findings"`
	Unsupported map[string]int `json:"unsupported"`
	Remaining   []string       `json:"remaining"`
	Samples     []Sample       `json:"samples"`
	Funcs       []FuncCov      `json:"funcs"`
	Error       string         `json:"error,omitempty"`
}

func (s *Session) RunJob(job Job) (res JobResult) {
	res.Fn = job.Fn
	fn := s.target.Func(job.Fn)
	if fn == nil {
		res.Error = "harness-stale: function " + job.Fn + " not found"
		return
	}
	for k, to := range job.Redirects {
		if s.target.Func(to) == nil {
			res.Error = "harness-stale: redirect target " + to + " not found"
			return
		}
		found := false
		for _, p := range s.prog.AllPackages() {
			if p.Func(k) != nil {
				found = true
			}
		}
		if !found {
			res.Error = "harness-stale: redirected callee " + k + " not found"
			return
		}
	}
	redirectPkg = s.target
	redirects = job.Redirects
	if redirects == nil {
		redirects = map[string]string{}
	}
	jobParams = job.Params
	mapOrderFilter = job.MapOrder
	mapOrderBudget = job.MapBudget
	if s.z == nil {
		var logw *os.File
		if job.Z3Log != "" {
			logw, _ = os.Create(job.Z3Log)
		}
		if logw != nil {
			s.z = startZ3(logw)
		} else {
			s.z = startZ3(nil)
		}
	}
	e := &Explorer{z: s.z, MaxSteps: job.MaxSteps, MaxDepth: job.MaxDepth, TimeoutMs: job.TimeoutMs, SampleEach: job.SampleEach, Cross: job.Cross}
	if len(job.Summaries) > 0 {
		e.Summaries = map[string]bool{}
		if s.fnNames == nil {
			s.fnNames = map[string]bool{}
			for f := range ssautil.AllFunctions(s.prog) {
				if f.Pkg != nil && covPkgs[f.Pkg.Pkg.Path()] {
					s.fnNames[f.String()] = true
				}
			}
		}
		for _, n := range job.Summaries {
			if !s.fnNames[n] {
				res.Error = "harness-stale: summarised callee " + n + " not found"
				return
			}
			e.Summaries[n] = true
		}
	}
	if e.MaxDepth == 0 {
		e.MaxDepth = 1500
	}
	var start [][]decision
	for _, p := range job.Prefixes {
		start = append(start, decodePrefix(p))
	}
	if len(job.Prefixes) == 0 {
		start = [][]decision{nil}
	}
	if s.fp0 == 0 {
		s.fp0 = s.fingerprint()
	}
	reinits0 := s.Reinits
	e.AfterPath = func() {
		if s.fingerprint() != s.fp0 {
			s.Reinit()
			s.fp0 = s.fingerprint()
			s.Reinits++
		}
	}
	var rem [][]decision
	func() {
		defer func() {
			if r := recover(); r != nil {
				res.Error = fmt.Sprintf("engine failure: %v", r)
			}
		}()
		rem = e.Explore(func() { call(s.i, nil, token.NoPos, fn, nil) }, start, job.MaxPaths)
	}()
	st := &e.Stats
	res.Paths, res.Aborted, res.Steps, res.Blocks = st.Paths, st.Aborted, st.Steps, st.Blocks
	res.Decisions, res.Checks = st.Decisions, st.Checks
	res.Queries, res.Sat, res.Unsat, res.Unknown = st.Queries, st.Sat, st.Unsat, st.Unknown
	res.SolverMs, res.MaxQueryMs = st.SolverTime.Milliseconds(), st.MaxQuery.Milliseconds()
	res.ModelHits, res.Fallbacks = st.ModelHits, st.Fallbacks
	res.CrossChecked = st.CrossChecked
	res.Reinits = s.Reinits - reinits0
	if e.alt != nil {
		e.alt.close()
	}
	res.Reached, res.Findings, res.Unsupported, res.Samples = st.Reached, st.Findings, st.Unsupported, st.Samples
	for _, r := range rem {
		res.Remaining = append(res.Remaining, encodePrefix(r))
	}
	for f, n := range covFuncs {
		k := 0
		for _, b := range f.Blocks {
			k += len(b.Instrs)
		}
		hf := strings.Contains(s.prog.Fset.Position(f.Pos()).Filename, "zz_verif_")
		res.Funcs = append(res.Funcs, FuncCov{Name: f.String(), Instrs: k, Calls: n, Harness: hf})
		delete(covFuncs, f)
	}
	sort.Slice(res.Funcs, func(i, j int) bool { return res.Funcs[i].Name < res.Funcs[j].Name })
	return
}

func (s *Session) Close() {
	if s.z != nil {
		s.z.close()
	}
}

// Reinit puts the package-level state of the repository's packages back to what their
// initialisers produce: every global is zeroed and the initialisers are run again
// (initialisers of other packages are guarded and do not run twice). Called before every
// path, so that a path can never observe state left behind by another path.
func (s *Session) Reinit() {
	for _, pkg := range s.prog.AllPackages() {
		if !covPkgs[pkg.Pkg.Path()] {
			continue
		}
		for _, m := range pkg.Members {
			if v, ok := m.(*ssa.Global); ok {
				*s.i.globals[v] = zero(mustDeref(v.Type()))
			}
		}
	}
	saved := theExplorer
	theExplorer = &Explorer{}
	lenientInit = true
	depth := callDepth
	callDepth = 0
	call(s.i, nil, token.NoPos, s.target.Func("init"), nil)
	callDepth = depth
	lenientInit = false
	theExplorer = saved
}
