package exec

import (
	"go/token"
	"go/types"
)

// byteEq decides (forking if needed) whether two byte values are equal.
func byteEq(a, b value) bool {
	eq := binop(token.EQL, types.Typ[types.Uint8], a, b)
	if sv, ok := eq.(symv); ok {
		return decide(sv.t)
	}
	return eq.(bool)
}

func matchAt(s, sub []value, i int) bool {
	for j := range sub {
		if !byteEq(s[i+j], sub[j]) {
			return false
		}
	}
	return true
}

func indexStr(s, sub []value) int {
	for i := 0; i+len(sub) <= len(s); i++ {
		if matchAt(s, sub, i) {
			return i
		}
	}
	return -1
}

func init() {
	delete(externals, "unicode/utf8.DecodeRuneInString")
	delete(externals, "strconv.Atoi")
	delete(externals, "strings.EqualFold")
	delete(externals, "strings.ToLower")
	delete(externals, "strings.Replace")
	externals["internal/bytealg.IndexByteString"] = func(fr *frame, args []value) value {
		s := strBytes(args[0])
		for i := range s {
			if byteEq(s[i], args[1]) {
				return i
			}
		}
		return -1
	}
	externals["strings.IndexByte"] = externals["internal/bytealg.IndexByteString"]
	externals["internal/bytealg.CountString"] = func(fr *frame, args []value) value {
		s := strBytes(args[0])
		n := 0
		for i := range s {
			if byteEq(s[i], args[1]) {
				n++
			}
		}
		return n
	}
	externals["strings.Index"] = func(fr *frame, args []value) value {
		return indexStr(strBytes(args[0]), strBytes(args[1]))
	}
	externals["internal/bytealg.IndexString"] = externals["strings.Index"]
	externals["strings.LastIndex"] = func(fr *frame, args []value) value {
		s, sub := strBytes(args[0]), strBytes(args[1])
		for i := len(s) - len(sub); i >= 0; i-- {
			if matchAt(s, sub, i) {
				return i
			}
		}
		return -1
	}
	externals["strings.Count"] = func(fr *frame, args []value) value {
		s, sub := strBytes(args[0]), strBytes(args[1])
		if len(sub) == 0 {
			panic(unsupported("strings.Count with empty separator"))
		}
		n := 0
		for i := 0; i+len(sub) <= len(s); {
			if matchAt(s, sub, i) {
				n++
				i += len(sub)
			} else {
				i++
			}
		}
		return n
	}
	externals["strings.Join"] = func(fr *frame, args []value) value {
		elems := args[0].([]value)
		sep := strBytes(args[1])
		var out []value
		for i, e := range elems {
			if i > 0 {
				out = append(out, sep...)
			}
			out = append(out, strBytes(e)...)
		}
		return mkStr(out)
	}
	externals["(*strings.Builder).copyCheck"] = func(fr *frame, args []value) value { return nil }
	externals["(*strings.Builder).String"] = func(fr *frame, args []value) value {
		st := (*args[0].(*value)).(structure)
		buf, _ := st[1].([]value)
		return mkStr(buf)
	}
	externals["internal/stringslite.Clone"] = func(fr *frame, args []value) value { return args[0] }
	externals["strings.Clone"] = externals["internal/stringslite.Clone"]
	externals["strings.HasPrefix"] = func(fr *frame, args []value) value {
		s, p := strBytes(args[0]), strBytes(args[1])
		return len(s) >= len(p) && matchAt(s, p, 0)
	}
}

// symIndex resolves a symbolic index into a concrete table by case-splitting on the distinct
// element values (the table is assumed read-only); returns a representative concrete index.
func symIndex(elems []value, idx symv) int64 {
	type grp struct {
		rep  int
		cond *Term
	}
	var groups []*grp
	byVal := map[string]*grp{}
	for i, e := range elems {
		if isSym(e) {
			panic(unsupported("symbolic index into table with symbolic elements"))
		}
		k := toString(e)
		g := byVal[k]
		c := tCmp("=", idx.t, tInt(int64(i)))
		if g == nil {
			g = &grp{rep: i, cond: c}
			byVal[k] = g
			groups = append(groups, g)
		} else {
			g.cond = mkTerm(&Term{op: "or", args: []*Term{g.cond, c}, isBool: true})
		}
	}
	// bounds check first
	inb := tAnd(tCmp("<=", tInt(0), idx.t), tCmp("<", idx.t, tInt(int64(len(elems)))))
	if !decide(inb) {
		panic("runtime error: index out of range (symbolic)")
	}
	for _, g := range groups[:len(groups)-1] {
		if decide(g.cond) {
			return int64(g.rep)
		}
	}
	return int64(groups[len(groups)-1].rep)
}
