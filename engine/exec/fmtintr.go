package exec

import (
	"fmt"
	"go/token"
	"go/types"
)

// toNative converts an interpreter value (usually an iface) to something the host fmt can print.
func toNative(fr *frame, v value) interface{} {
	if it, ok := v.(iface); ok {
		if it.t == nil {
			return nil
		}
		for _, name := range []string{"Error", "String"} {
			if sel := fr.i.prog.MethodSets.MethodSet(it.t).Lookup(nil, name); sel != nil {
				m := fr.i.prog.MethodValue(sel)
				if m == nil || m.Signature.Params().Len() != 0 {
					continue
				}
				r := call(fr.i, fr, token.NoPos, m, []value{it.v})
				return toNative(fr, r)
			}
		}
		return toNative(fr, it.v)
	}
	switch v := v.(type) {
	case symstr:
		b := make([]byte, len(v))
		for i := range v {
			if c, ok := v[i].(byte); ok {
				b[i] = c
			} else {
				b[i] = '?'
			}
		}
		return string(b)
	case symv:
		return "<sym>"
	case bool, int, int8, int16, int32, int64, uint, uint8, uint16, uint32, uint64, uintptr, string, float64:
		return v
	}
	return fmt.Sprintf("<%T>", v)
}

func renderArgs(fr *frame, args []value) []interface{} {
	var out []interface{}
	for _, a := range args {
		out = append(out, toNative(fr, a))
	}
	return out
}

func writeTo(fr *frame, w value, s string) {
	it := w.(iface)
	sel := fr.i.prog.MethodSets.MethodSet(it.t).Lookup(nil, "Write")
	if sel == nil {
		panic(unsupported("fmt: writer without Write"))
	}
	m := fr.i.prog.MethodValue(sel)
	call(fr.i, fr, token.NoPos, m, []value{it.v, strBytes(s)})
}

// symSprintf formats like fmt.Sprintf but keeps symbolic bytes of string arguments under %s/%v.
// fmtDepth > 0 while a message is being formatted: a symbolic integer that is printed in
// decimal inside a message (a Number, a range, a count) is rendered as the placeholder
// "<sym>" instead of forking over its digits (numintr.go). Message text containing symbolic
// numbers is not the subject of any check; positions (concrete line/column) print normally.
var fmtDepth int

func symSprintf(fr *frame, formatV value, args []value) value {
	fmtDepth++
	defer func() { fmtDepth-- }()
	var out []value
	ai := 0
	fb := strBytes(formatV)
	// a symbolic byte of the format is copied literally (it is message text built by
	// concatenation, e.g. `invalid escape sequence: \`+string(c)); verbs are concrete bytes
	fbytes := make([]byte, len(fb))
	for i, b := range fb {
		if c, ok := b.(byte); ok {
			fbytes[i] = c
		} else {
			fbytes[i] = 0
		}
	}
	format := string(fbytes)
	for i := 0; i < len(format); i++ {
		c := format[i]
		if c != '%' {
			out = append(out, fb[i])
			continue
		}
		j := i + 1
		for j < len(format) && !(format[j] >= 'a' && format[j] <= 'z' || format[j] >= 'A' && format[j] <= 'Z' || format[j] == '%') {
			j++
		}
		if j >= len(format) {
			out = append(out, strBytes(format[i:])...)
			break
		}
		verb := format[i : j+1]
		i = j
		if verb == "%%" {
			out = append(out, byte('%'))
			continue
		}
		if ai >= len(args) {
			out = append(out, strBytes("%!"+verb[len(verb)-1:]+"(MISSING)")...)
			continue
		}
		a := args[ai]
		ai++
		if it, ok := a.(iface); ok {
			switch it.v.(type) {
			case structure, []value, array:
				if hasSymScalar(it.v, 4) {
					// a struct or slice value with symbolic numbers (Number, YRange, YangRange) in a
					// message: opaque placeholder, its String method is not run
					out = append(out, strBytes("<sym>")...)
					continue
				}
			}
		}
		if it, ok := a.(iface); ok && (verb == "%s" || verb == "%v") {
			inner := it.v
			if it.t != nil {
				for _, name := range []string{"Error", "String"} {
					if sel := fr.i.prog.MethodSets.MethodSet(it.t).Lookup(nil, name); sel != nil {
						if m := fr.i.prog.MethodValue(sel); m != nil && m.Signature.Params().Len() == 0 {
							inner = call(fr.i, fr, token.NoPos, m, []value{it.v})
							break
						}
					}
				}
			}
			if ss, ok := inner.(symstr); ok {
				out = append(out, []value(ss)...)
				continue
			}
		}
		out = append(out, strBytes(fmt.Sprintf(verb, toNative(fr, a)))...)
	}
	return mkStr(out)
}

func init() {
	externals["fmt.Sprintf"] = func(fr *frame, args []value) value {
		return symSprintf(fr, args[0], args[1].([]value))
	}
	externals["fmt.Fprintf"] = func(fr *frame, args []value) value {
		// the formatted text keeps its symbolic bytes (it may be read back, e.g. from a bytes.Buffer)
		s := symSprintf(fr, args[1], args[2].([]value))
		bs := strBytes(s)
		it := args[0].(iface)
		sel := fr.i.prog.MethodSets.MethodSet(it.t).Lookup(nil, "Write")
		if sel == nil {
			panic(unsupported("fmt: writer without Write"))
		}
		call(fr.i, fr, token.NoPos, fr.i.prog.MethodValue(sel), []value{it.v, append([]value{}, bs...)})
		return tuple{len(bs), iface{}}
	}
	externals["fmt.Fprintln"] = func(fr *frame, args []value) value {
		s := fmt.Sprintln(renderArgs(fr, args[1].([]value))...)
		writeTo(fr, args[0], s)
		return tuple{len(s), iface{}}
	}
	externals["fmt.Errorf"] = func(fr *frame, args []value) value {
		s := symSprintf(fr, args[0], args[1].([]value))
		newFn := fr.i.prog.ImportedPackage("errors").Func("New")
		return call(fr.i, fr, token.NoPos, newFn, []value{s})
	}
	_ = types.Typ
}

// hasSymDeep reports whether v contains a symbolic scalar or string, looking through
// structs, slices, arrays, interfaces and pointers up to the given depth.
func hasSymDeep(v value, depth int) bool {
	if depth < 0 {
		return false
	}
	switch v := v.(type) {
	case symv, symstr, symm:
		return true
	case structure:
		for _, x := range v {
			if hasSymDeep(x, depth-1) {
				return true
			}
		}
	case array:
		for _, x := range v {
			if hasSymDeep(x, depth-1) {
				return true
			}
		}
	case []value:
		for _, x := range v {
			if hasSymDeep(x, depth-1) {
				return true
			}
		}
	case iface:
		return hasSymDeep(v.v, depth-1)
	case *value:
		if v != nil {
			return hasSymDeep(*v, depth-1)
		}
	}
	return false
}

// hasSymScalar is hasSymDeep restricted to symbolic scalars outside strings (a symbolic
// integer or bool field); strings with symbolic bytes do not count.
func hasSymScalar(v value, depth int) bool {
	if depth < 0 {
		return false
	}
	switch v := v.(type) {
	case symv, symm:
		return true
	case structure:
		for _, x := range v {
			if hasSymScalar(x, depth-1) {
				return true
			}
		}
	case array:
		for _, x := range v {
			if hasSymScalar(x, depth-1) {
				return true
			}
		}
	case []value:
		for _, x := range v {
			if hasSymScalar(x, depth-1) {
				return true
			}
		}
	case iface:
		return hasSymScalar(v.v, depth-1)
	case *value:
		if v != nil {
			return hasSymScalar(*v, depth-1)
		}
	}
	return false
}
