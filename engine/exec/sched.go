package exec

// Decision-prefix DFS. One long-lived solver process per worker; every query is sent after
// (reset) (z3's incremental core stalls on the big-coefficient LIA of Int mode, DESIGN App. F).

import (
	"bufio"
	"fmt"
	"io"
	"math/big"
	"os"
	"os/exec"
	"sort"
	"strings"
	"time"
)

type decision struct {
	taken  bool
	forced bool // only one direction was feasible
}

func encodePrefix(ds []decision) string {
	b := make([]byte, len(ds))
	for i, d := range ds {
		switch {
		case d.taken && d.forced:
			b[i] = 't'
		case d.taken:
			b[i] = 'T'
		case d.forced:
			b[i] = 'f'
		default:
			b[i] = 'F'
		}
	}
	return string(b)
}

func decodePrefix(s string) []decision {
	ds := make([]decision, len(s))
	for i := 0; i < len(s); i++ {
		switch s[i] {
		case 't':
			ds[i] = decision{true, true}
		case 'T':
			ds[i] = decision{true, false}
		case 'f':
			ds[i] = decision{false, true}
		default:
			ds[i] = decision{false, false}
		}
	}
	return ds
}

type inputVar struct {
	t    *Term
	kind string // "u64","i64","u8","bool","int","ord","choice"
}

type pathState struct {
	prefix    []decision // decisions to replay
	pos       int        // next decision index
	log       []decision // decisions made on this path (prefix + new)
	order     []*Term    // all constraints in assertion order
	vars      []*Term    // declared variables
	nvars     int
	inputs    []inputVar // harness inputs in call order
	steps     int
	blocks    int
	divMemo   map[string][2]*Term
	decided   map[string]bool
	perturbed int
	reached   map[string]bool
	checks    int
	newDec    int // solver-decided (non-replayed) decisions on this path
	notes     []string
	// model is a satisfying assignment of the path condition (nil = none known). It saves one
	// of the two queries of every branch decision: the direction the model takes is feasible.
	lastSatExtra *Term
	model   map[string]*big.Int // bools as 0/1
	modelOK bool
	checked int // number of constraints of order known to hold under model
}

// Finding is a violated check, an escaped panic of the target program, or a budget hit.
type Finding struct {
	Kind   string     `json:"kind"` // "check", "panic", "budget"
	Label  string     `json:"label"`
	Sig    string     `json:"sig,omitempty"` // known-finding signature name, if the model lies in that region
	Inputs []InputVal `json:"inputs"`
	Prefix string     `json:"prefix"`
	Notes  []string   `json:"notes,omitempty"`
}

type InputVal struct {
	Name  string `json:"name"`
	Kind  string `json:"kind"`
	Value string `json:"value"` // decimal integer, or "true"/"false"
}

type Stats struct {
	Paths, Aborted, Queries, Sat, Unsat, Unknown int
	SolverTime                                   time.Duration
	Steps, Blocks                                int64
	Decisions                                    int // solver-decided branch decisions
	Checks                                       int
	Reached                                      map[string]int
	Findings                                     []Finding
	ModelHits, Fallbacks                         int
	CrossChecked                                 int // unsat verdicts re-asked of the second solver (thorough tier)
	Unsupported                                  map[string]int
	Samples                                      []Sample
	MaxQuery                                     time.Duration
}

// Sample is the model of a completed path (an input the run actually covered).
type Sample struct {
	Inputs  []InputVal `json:"inputs"`
	Reached []string   `json:"reached"`
	Prefix  string     `json:"prefix"`
	Notes   []string   `json:"notes,omitempty"`
}

// summaryRun is the state of one solver-free enumeration of the paths of a pure callee
// (DESIGN 2.2 "summaries of pure callees").
type summaryRun struct {
	prefix  []bool
	pos     int
	taken   []bool
	conds   []*Term
	decided map[string]bool
	work    [][]bool
}

func (sm *summaryRun) decide(c *Term, key string) bool {
	if b, ok := sm.decided[key]; ok {
		return b
	}
	var d bool
	if sm.pos < len(sm.prefix) {
		d = sm.prefix[sm.pos]
	} else {
		d = true
		alt := append(append([]bool{}, sm.taken...), false)
		sm.work = append(sm.work, alt)
	}
	sm.pos++
	sm.taken = append(sm.taken, d)
	t := c
	if !d {
		t = tNot(c)
	}
	sm.conds = append(sm.conds, t)
	sm.decided[key] = d
	sm.decided[tNot(c).String()] = !d
	return d
}

type Explorer struct {
	AfterPath  func()
	alt, lastZ *z3proc
	witness    map[string]*big.Int
	summary    *summaryRun
	Summaries  map[string]bool
	z          *z3proc
	work       [][]decision
	cur        *pathState
	Stats      Stats
	MaxSteps   int
	Cross      bool // re-ask unsat verdicts of a second solver
	MaxDepth   int
	TimeoutMs  int
	SampleEach int // sample the model of every n-th completed path (0 = never)
	Known      map[string]bool
	findingKey map[string]bool
}

var theExplorer *Explorer
var debugPrinted bool

func curPath() *pathState { return theExplorer.cur }

type pathAbort struct{ why string }

func isEnginePanic(r interface{}) bool {
	switch r.(type) {
	case pathAbort, unsupportedErr:
		return true
	}
	return false
}

func (p *pathState) fresh(prefix string, lo, hi *big.Int) *Term {
	p.nvars++
	v := mkTerm(&Term{op: "var", name: fmt.Sprintf("%s%d", prefix, p.nvars), lo: lo, hi: hi, loInit: lo})
	p.vars = append(p.vars, v)
	if lo != nil {
		p.side(mkTerm(&Term{op: "<=", args: []*Term{tConst(lo), v}, isBool: true}))
	}
	if hi != nil {
		p.side(mkTerm(&Term{op: "<=", args: []*Term{v, tConst(hi)}, isBool: true}))
	}
	return v
}

func (p *pathState) freshBool(prefix string) *Term {
	p.nvars++
	v := mkTerm(&Term{op: "var", name: fmt.Sprintf("%s%d", prefix, p.nvars), isBool: true})
	p.vars = append(p.vars, v)
	return v
}

func (p *pathState) side(t *Term) {
	p.order = append(p.order, t)
	narrow(t)
}

// narrow tightens the syntactic interval of a variable when a constraint bounds it by a
// constant. Variables are created per path, so the mutation is path-local. Intervals are
// only used to fold comparisons that are implied by the path condition.
func narrow(t *Term) {
	if t.op == "or" {
		// a disjunction of equalities of one variable with constants bounds the variable
		var v *Term
		var lo, hi *big.Int
		var walk func(x *Term) bool
		walk = func(x *Term) bool {
			if x.op == "or" {
				for _, a := range x.args {
					if !walk(a) {
						return false
					}
				}
				return true
			}
			if x.op != "=" || len(x.args) != 2 {
				return false
			}
			a, c := x.args[0], x.args[1]
			if a.op == "const" {
				a, c = c, a
			}
			if a.op != "var" || a.isBool || c.op != "const" || (v != nil && v != a) {
				return false
			}
			v = a
			if lo == nil || c.val.Cmp(lo) < 0 {
				lo = c.val
			}
			if hi == nil || c.val.Cmp(hi) > 0 {
				hi = c.val
			}
			return true
		}
		if walk(t) && v != nil {
			if v.lo == nil || lo.Cmp(v.lo) > 0 {
				v.lo = lo
			}
			if v.hi == nil || hi.Cmp(v.hi) < 0 {
				v.hi = hi
			}
		}
		return
	}
	neg := false
	if t.op == "not" {
		neg = true
		t = t.args[0]
	}
	if len(t.args) != 2 {
		return
	}
	x, y := t.args[0], t.args[1]
	op := t.op
	if op != "<" && op != "<=" && op != "=" {
		return
	}
	if neg {
		// not (x < y) == y <= x ; not (x <= y) == y < x
		switch op {
		case "<":
			op, x, y = "<=", y, x
		case "<=":
			op, x, y = "<", y, x
		default:
			return
		}
	}
	one := big.NewInt(1)
	setHi := func(v *Term, c *big.Int) {
		if v.op == "var" && !v.isBool && (v.hi == nil || c.Cmp(v.hi) < 0) {
			v.hi = c
		}
	}
	setLo := func(v *Term, c *big.Int) {
		if v.op == "var" && !v.isBool && (v.lo == nil || c.Cmp(v.lo) > 0) {
			v.lo = c
		}
	}
	switch {
	case y.op == "const" && op == "<=":
		setHi(x, y.val)
	case y.op == "const" && op == "<":
		setHi(x, new(big.Int).Sub(y.val, one))
	case x.op == "const" && op == "<=":
		setLo(y, x.val)
	case x.op == "const" && op == "<":
		setLo(y, new(big.Int).Add(x.val, one))
	case op == "=" && y.op == "const":
		setHi(x, y.val)
		setLo(x, y.val)
	case op == "=" && x.op == "const":
		setHi(y, x.val)
		setLo(y, x.val)
	}
}

// feasible asks whether the current path condition plus extra is satisfiable.
func (e *Explorer) feasible(extra *Term) string {
	p := e.cur
	var sb strings.Builder
	sb.WriteString("(reset)\n")
	if e.TimeoutMs > 0 {
		fmt.Fprintf(&sb, "(set-option :timeout %d)\n", e.TimeoutMs)
	}
	for _, v := range p.vars {
		sort := "Int"
		if v.isBool {
			sort = "Bool"
		}
		fmt.Fprintf(&sb, "(declare-const %s %s)\n", v.name, sort)
	}
	for _, c := range p.order {
		sb.WriteString("(assert ")
		c.smt(&sb)
		sb.WriteString(")\n")
	}
	sb.WriteString("(assert ")
	extra.smt(&sb)
	sb.WriteString(")\n(check-sat)\n")
	t0 := time.Now()
	e.z.send(sb.String())
	res := e.z.readLine()
	e.lastZ = e.z
	if res != "sat" && res != "unsat" {
		// undecided by the primary solver within its time limit: ask a second solver (z3 5.1.0)
		// with a longer limit before giving up; only a definite answer is ever used
		e.Stats.Fallbacks++
		if e.alt == nil {
			e.alt = startSolver("z3-new", nil)
		}
		q := sb.String()
		if e.TimeoutMs > 0 {
			q = strings.Replace(q, fmt.Sprintf("(set-option :timeout %d)", e.TimeoutMs), fmt.Sprintf("(set-option :timeout %d)", 6*e.TimeoutMs), 1)
		}
		e.alt.send(q)
		res = e.alt.readLine()
		e.lastZ = e.alt
	}
	if res == "unsat" && e.Cross && e.lastZ == e.z {
		// thorough tier: an unsat verdict (a pruned direction, a proved assertion) of the primary
		// solver is re-asked of the second one; a disagreement makes the run inconclusive
		if e.alt == nil {
			e.alt = startSolver("z3-new", nil)
		}
		e.alt.send(sb.String())
		e.Stats.CrossChecked++
		if r2 := e.alt.readLine(); r2 == "sat" {
			e.unsupported("solver disagreement: z3 4.8.12 says unsat, z3 5.1.0 says sat")
		}
	}
	d := time.Since(t0)
	e.Stats.SolverTime += d
	if d > e.Stats.MaxQuery {
		e.Stats.MaxQuery = d
	}
	if e.z.log != nil {
		fmt.Fprintf(e.z.log, "; RESULT %s %d ms\n", res, d.Milliseconds())
	}
	e.Stats.Queries++
	p.lastSatExtra = nil
	switch res {
	case "sat":
		p.lastSatExtra = extra
		e.Stats.Sat++
	case "unsat":
		e.Stats.Unsat++
	default:
		e.Stats.Unknown++
	}
	return res
}

func (e *Explorer) modelNow() []InputVal {
	if e.sat(tBool(true)) != "sat" {
		return nil
	}
	return e.inputsOf(e.witness)
}

func (e *Explorer) addFinding(f Finding) {
	f.Prefix = encodePrefix(e.cur.log)
	f.Notes = append([]string{}, e.cur.notes...)
	key := f.Kind + "|" + f.Label + "|" + f.Sig
	if e.findingKey == nil {
		e.findingKey = map[string]bool{}
	}
	// keep at most 3 models per (kind,label,sig)
	n := 0
	for _, g := range e.Stats.Findings {
		if g.Kind+"|"+g.Label+"|"+g.Sig == key {
			n++
		}
	}
	if n >= 3 {
		return
	}
	e.Stats.Findings = append(e.Stats.Findings, f)
}

func (e *Explorer) unsupported(msg string) {
	if e.Stats.Unsupported == nil {
		e.Stats.Unsupported = map[string]int{}
	}
	if len(msg) > 300 {
		msg = msg[:300]
	}
	e.Stats.Unsupported[msg]++
}

// decideFree is decide for a condition whose both directions are known to be feasible without
// asking the solver (a comparison of a fresh, otherwise unconstrained choice variable with a
// value of its range that has not been excluded yet).
func decideFree(c *Term) bool {
	freeDecision = true
	defer func() { freeDecision = false }()
	return decide(c)
}

var freeDecision bool

// decide resolves a symbolic branch condition.
func decide(c *Term) bool {
	e := theExplorer
	p := e.cur
	if c.op == "bconst" {
		return c.bval
	}
	key := c.String()
	if p.decided == nil {
		p.decided = map[string]bool{}
	}
	if b, ok := p.decided[key]; ok {
		return b
	}
	if sm := e.summary; sm != nil {
		return sm.decide(c, key)
	}
	record := func(d decision) bool {
		p.pos++
		p.log = append(p.log, d)
		t := c
		if !d.taken {
			t = tNot(c)
		}
		p.order = append(p.order, t)
		narrow(t)
		p.decided[key] = d.taken
		p.decided[tNot(c).String()] = !d.taken
		return d.taken
	}
	if p.pos < len(p.prefix) {
		return record(p.prefix[p.pos])
	}
	if freeDecision {
		p.newDec++
		alt := append(append([]decision{}, p.log...), decision{taken: false})
		e.work = append(e.work, alt)
		return record(decision{taken: true})
	}
	// new decision: the direction the kept model takes needs no query
	rt := e.sat(c)
	wt := e.witness
	rf := "sat" // the path condition is satisfiable (invariant), so if c is unsat, not-c is sat
	var wf map[string]*big.Int
	if rt != "unsat" {
		rf = e.sat(tNot(c))
		wf = e.witness
	} else {
		p.syncModel()
		if p.modelOK {
			wf = p.model
		}
	}
	if rt != "sat" && rt != "unsat" || rf != "sat" && rf != "unsat" {
		panic(unsupported("solver returned " + rt + "/" + rf + " on a branch condition"))
	}
	p.newDec++
	switch {
	case rt == "sat" && rf == "sat":
		alt := append(append([]decision{}, p.log...), decision{taken: false})
		e.work = append(e.work, alt)
		r := record(decision{taken: true})
		p.adopt(wt)
		return r
	case rt == "sat":
		r := record(decision{taken: true, forced: true})
		p.adopt(wt)
		return r
	case rf == "sat":
		r := record(decision{taken: false, forced: true})
		p.adopt(wf)
		return r
	}
	panic(pathAbort{"infeasible path"})
}

// Explore runs body once per feasible path, starting from the given prefixes, for at most
// maxPaths paths; the unexplored prefixes are returned.
func (e *Explorer) Explore(body func(), start [][]decision, maxPaths int) (remaining [][]decision) {
	theExplorer = e
	if e.Stats.Reached == nil {
		e.Stats.Reached = map[string]int{}
	}
	e.work = start
	n := 0
	for len(e.work) > 0 && (maxPaths <= 0 || n < maxPaths) {
		n++
		prefix := e.work[len(e.work)-1]
		e.work = e.work[:len(e.work)-1]
		e.cur = &pathState{prefix: prefix, reached: map[string]bool{}}
		callDepth = 0
		firstPanicStack = nil
		aborted := false
		func() {
			defer func() {
				if r := recover(); r != nil {
					switch r := r.(type) {
					case pathAbort:
						aborted = true
					case unsupportedErr:
						if r.budget {
							e.addFinding(Finding{Kind: "budget", Label: r.msg, Inputs: e.safeModel()})
						} else {
							e.unsupported(r.msg)
						}
						aborted = true
					default:
						if debugStacks && !debugPrinted {
							debugPrinted = true
							fmt.Fprintln(os.Stderr, r)
							os.Stderr.Write(firstPanicStack)
						}
						firstPanicStack = nil
						msg := panicString(r)
						if hostBug(r) {
							e.unsupported("engine: " + msg)
							aborted = true
							return
						}
						// a Go-level panic of the target program escaped the harness
						e.cur.reached["panic"] = true
						e.addFinding(Finding{Kind: "panic", Label: msg, Inputs: e.safeModel()})
					}
				}
			}()
			body()
		}()
		if e.AfterPath != nil {
			e.AfterPath()
		}
		e.Stats.Paths++
		if aborted {
			e.Stats.Aborted++
		} else if e.SampleEach > 0 && e.Stats.Paths%e.SampleEach == 1%e.SampleEach && len(e.Stats.Samples) < 8 {
			if in := e.safeModel(); in != nil {
				var rs []string
				for k := range e.cur.reached {
					rs = append(rs, k)
				}
				sort.Strings(rs)
				e.Stats.Samples = append(e.Stats.Samples, Sample{Inputs: in, Reached: rs, Prefix: encodePrefix(e.cur.log), Notes: e.cur.notes})
			}
		}
		e.Stats.Steps += int64(e.cur.steps)
		e.Stats.Blocks += int64(e.cur.blocks)
		e.Stats.Checks += e.cur.checks
		e.Stats.Decisions += e.cur.newDec
		for k := range e.cur.reached {
			e.Stats.Reached[k]++
		}
	}
	rem := e.work
	e.work = nil
	return rem
}

func (e *Explorer) safeModel() (m []InputVal) {
	defer func() {
		if r := recover(); r != nil {
			m = nil
		}
	}()
	return e.modelNow()
}

func panicString(r interface{}) string {
	switch r := r.(type) {
	case targetPanic:
		return "panic: " + toString(r.v)
	case error:
		return "runtime error: " + strings.TrimPrefix(r.Error(), "runtime error: ")
	case string:
		return r
	}
	return fmt.Sprint(r)
}

// hostBug reports whether a recovered host panic is a defect of the interpreter itself
// (type switch failure on an interpreter value etc.) rather than a panic of the target.
func hostBug(r interface{}) bool {
	switch r := r.(type) {
	case targetPanic:
		return false
	case error:
		s := r.Error()
		// interface conversion failures inside the interpreter are engine gaps, not target panics
		if strings.Contains(s, "interface conversion: exec.value") || strings.Contains(s, "interface conversion: interface {}") {
			return true
		}
		return false
	case string:
		return strings.HasPrefix(r, "unexpected") || strings.HasPrefix(r, "cannot convert") || strings.HasPrefix(r, "no code for function") || strings.HasPrefix(r, "interp ")
	}
	return true
}

// ---- solver process

type z3proc struct {
	cmd *exec.Cmd
	in  io.WriteCloser
	out *bufio.Reader
	log io.Writer
}

func startZ3(log io.Writer) *z3proc {
	bin := os.Getenv("GOSYM_Z3")
	if bin == "" {
		bin = "z3"
	}
	return startSolver(bin, log)
}

func startSolver(bin string, log io.Writer) *z3proc {
	cmd := exec.Command(bin, "-in")
	in, _ := cmd.StdinPipe()
	out, _ := cmd.StdoutPipe()
	if err := cmd.Start(); err != nil {
		panic(err)
	}
	return &z3proc{cmd: cmd, in: in, out: bufio.NewReader(out), log: log}
}

func (z *z3proc) send(s string) {
	if z.log != nil {
		io.WriteString(z.log, s)
	}
	io.WriteString(z.in, s)
}

func (z *z3proc) readLine() string {
	line, err := z.out.ReadString('\n')
	if err != nil {
		panic(unsupported("solver process died: " + err.Error()))
	}
	line = strings.TrimSpace(line)
	if strings.HasPrefix(line, "(error") {
		panic(unsupported("solver error: " + line))
	}
	return line
}

func (z *z3proc) close() { z.in.Close(); z.cmd.Wait() }
