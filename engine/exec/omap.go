package exec

import (
	"go/token"
	"go/types"
	"math/big"
	"strings"
)

// omap: insertion-ordered association list for string-keyed maps; key equality is decided
// by the solver when a key has symbolic bytes.
type omap struct {
	keys   []value
	vals   []value
	kt     types.Type
	mt     string // full map type as written at its make site
	index  map[value]int // concrete indexable keys -> position
	nsym   int           // number of keys with symbolic content
	nplain int           // number of keys present in index
}

// map-order exploration (DESIGN 2.4): ranges over maps whose key type matches mapOrderFilter
// may be perturbed, at most mapOrderBudget times per path, to any permutation (n <= 4) or to the
// reverse or a rotation of the insertion order (4 < n <= 12).
var mapOrderFilter string
var mapOrderBudget = 1

func permute(keys []value, k int) []value {
	// k-th permutation in factorial number system
	rest := append([]value{}, keys...)
	var out []value
	n := len(rest)
	f := 1
	for i := 2; i < n; i++ {
		f *= i
	}
	for i := n - 1; i >= 0; i-- {
		idx := 0
		if f > 0 {
			idx = k / f
			k %= f
		}
		out = append(out, rest[idx])
		rest = append(rest[:idx:idx], rest[idx+1:]...)
		if i > 0 {
			f /= i
		}
	}
	return out
}

func rangeOrder(m *omap) []value {
	keys := append([]value{}, m.keys...)
	n := len(keys)
	p := curPath()
	if mapOrderFilter == "" || p == nil || n < 2 || n > 12 || m.kt == nil || p.perturbed >= mapOrderBudget || theExplorer.summary != nil {
		return keys
	}
	match := false
	kt := m.mt
	if kt == "" {
		kt = "map[" + m.kt.String() + "]"
	}
	for _, f := range strings.Split(mapOrderFilter, "|") {
		if f != "" && (f == "*" || strings.Contains(kt, f)) {
			match = true
		}
	}
	if !match {
		return keys
	}
	fact := 1
	for i := 2; i <= n; i++ {
		fact *= i
	}
	if n > 4 {
		// larger maps: insertion order, its reverse (flips the relative order of every pair of
		// entries) and a rotation by one - not all n! orders
		fact = 3
	}
	// which permutation the runtime picks for this range event is a free symbolic choice
	// (DESIGN 2.4); at most mapOrderBudget events per path deviate from insertion order
	v := p.fresh("ord", big.NewInt(0), big.NewInt(int64(fact-1)))
	p.inputs = append(p.inputs, inputVar{v, "ord"})
	val := fact - 1
	for k := 0; k < fact-1; k++ {
		if decideFree(tCmp("=", v, tInt(int64(k)))) {
			val = k
			break
		}
	}
	if p.modelOK && p.model != nil {
		p.model[v.name] = big.NewInt(int64(val))
	}
	if val > 0 {
		p.perturbed++
	}
	if n > 4 {
		switch val {
		case 1:
			for i, j := 0, n-1; i < j; i, j = i+1, j-1 {
				keys[i], keys[j] = keys[j], keys[i]
			}
		case 2:
			keys = append(keys[1:], keys[0])
		}
		return keys
	}
	return permute(keys, val)
}

func isStringKey(kt types.Type) bool { return true }

// indexable reports whether concrete keys of this type can be looked up through the host map.
func indexableKey(k value) bool {
	switch k.(type) {
	case string, bool, int, int8, int16, int32, int64, uint, uint8, uint16, uint32, uint64, uintptr, *value:
		return true
	}
	return false
}

func keyEq(kt types.Type, a, b value) bool {
	if isStrVal(a) || isStrVal(b) {
		as, aok := a.(string)
		bs, bok := b.(string)
		if aok && bok {
			return as == bs
		}
		r := symStrBinop(token.EQL, a, b)
		if sv, ok := r.(symv); ok {
			return decide(sv.t)
		}
		return r.(bool)
	}
	if isSym(a) || isSym(b) {
		r := symBinop(token.EQL, kt, a, b)
		if sv, ok := r.(symv); ok {
			return decide(sv.t)
		}
		return r.(bool)
	}
	if hasSymDeep(a, 4) || hasSymDeep(b, 4) {
		return decide(valEqTerm(a, b))
	}
	return equals(kt, a, b)
}

func (m *omap) find(k value) int {
	if m.nsym == 0 && indexableKey(k) {
		if i, ok := m.index[k]; ok {
			return i
		}
		if m.nplain == len(m.keys) {
			return -1
		}
	}
	for i, e := range m.keys {
		if keyEq(m.kt, e, k) {
			return i
		}
	}
	return -1
}

func (m *omap) lookup(k value) (value, bool) {
	if m == nil {
		return nil, false
	}
	if i := m.find(k); i >= 0 {
		return m.vals[i], true
	}
	return nil, false
}

func (m *omap) reindex() {
	m.index = map[value]int{}
	m.nsym, m.nplain = 0, 0
	for i, k := range m.keys {
		if indexableKey(k) {
			m.index[k] = i
			m.nplain++
		} else if isSym(k) {
			m.nsym++
		} else if _, ok := k.(symstr); ok {
			m.nsym++
		}
	}
}

func (m *omap) insert(k, v value) {
	if i := m.find(k); i >= 0 {
		m.vals[i] = v
		return
	}
	m.keys = append(m.keys, k)
	m.vals = append(m.vals, v)
	if indexableKey(k) {
		if m.index == nil {
			m.index = map[value]int{}
		}
		m.index[k] = len(m.keys) - 1
		m.nplain++
	} else if isSym(k) {
		m.nsym++
	} else if _, ok := k.(symstr); ok {
		m.nsym++
	}
}

func (m *omap) delete(k value) {
	if m == nil {
		return
	}
	if i := m.find(k); i >= 0 {
		m.keys = append(m.keys[:i:i], m.keys[i+1:]...)
		m.vals = append(m.vals[:i:i], m.vals[i+1:]...)
		m.reindex()
	}
}

type omapIter struct {
	m *omap
	i int
	// snapshot of keys at range start; entries deleted meanwhile are skipped (as Go does),
	// entries added meanwhile are not visited (Go leaves that unspecified)
	keys []value
}

func (it *omapIter) next() tuple {
	for it.i < len(it.keys) {
		k := it.keys[it.i]
		it.i++
		if v, ok := it.m.lookup(k); ok {
			return []value{true, k, v}
		}
	}
	return []value{false, nil, nil}
}
