// Copyright 2013 The Go Authors. All rights reserved.
// Use of this source code is governed by a BSD-style
// license that can be found in the LICENSE file.

package exec

// Custom hashtable atop map.
// For use when the key's equivalence relation is not consistent with ==.

// The Go specification doesn't address the atomicity of map operations.
// The FAQ states that an implementation is permitted to crash on
// concurrent map access.

import (
	"go/types"
)

type hashable interface {
	hash(t types.Type) int
	eq(t types.Type, x interface{}) bool
}

type entry struct {
	key   hashable
	value value
	next  *entry
}

// A hashtable atop the built-in map.  Since each bucket contains
// exactly one hash value, there's no need to perform hash-equality
// tests when walking the linked list.  Rehashing is done by the
// underlying map.
type hashmap struct {
	keyType types.Type
	table   map[int]*entry
	length  int // number of entries in map
}

// makeMap returns an empty initialized map of key type kt,
// preallocating space for reserve elements.
func makeMap(kt types.Type, reserve int64) value {
	if isStringKey(kt) {
		return &omap{kt: kt}
	}
	if usesBuiltinMap(kt) {
		return make(map[value]value, reserve)
	}
	return &hashmap{keyType: kt, table: make(map[int]*entry, reserve)}
}

// delete removes the association for key k, if any.
func (m *hashmap) delete(k hashable) {
	if m != nil {
		hash := k.hash(m.keyType)
		head := m.table[hash]
		if head != nil {
			if k.eq(m.keyType, head.key) {
				m.table[hash] = head.next
				m.length--
				return
			}
			prev := head
			for e := head.next; e != nil; e = e.next {
				if k.eq(m.keyType, e.key) {
					prev.next = e.next
					m.length--
					return
				}
				prev = e
			}
		}
	}
}

// lookup returns the value associated with key k, if present, or
// value(nil) otherwise.
func (m *hashmap) lookup(k hashable) value {
	if m != nil {
		hash := k.hash(m.keyType)
		for e := m.table[hash]; e != nil; e = e.next {
			if k.eq(m.keyType, e.key) {
				return e.value
			}
		}
	}
	return nil
}

// insert updates the map to associate key k with value v.  If there
// was already an association for an eq() (though not necessarily ==)
// k, the previous key remains in the map and its associated value is
// updated.
func (m *hashmap) insert(k hashable, v value) {
	hash := k.hash(m.keyType)
	head := m.table[hash]
	for e := head; e != nil; e = e.next {
		if k.eq(m.keyType, e.key) {
			e.value = v
			return
		}
	}
	m.table[hash] = &entry{
		key:   k,
		value: v,
		next:  head,
	}
	m.length++
}

// len returns the number of key/value associations in the map.
func (m *hashmap) len() int {
	if m != nil {
		return m.length
	}
	return 0
}

// entries returns a rangeable map of entries.
func (m *hashmap) entries() map[int]*entry {
	if m != nil {
		return m.table
	}
	return nil
}
