package exec

import (
	"go/token"
	"go/types"
	"math/big"
)

// symDecimal renders a symbolic integer in decimal as symbolic bytes. The number of digits is
// decided by forking (solver-guided) on v < 10^k; the digits are tied to v by the definitional
// quotient chain q_i = 10*q_{i+1} + d_i (DESIGN 2.1 rule (i)). This stands in for
// strconv.FormatUint/FormatInt, whose real bodies index a 200-byte table with v%100*2.
func symDecimal(v symv) []value {
	if fmtDepth > 0 {
		return strBytes("<sym>")
	}
	t := v.t
	neg := false
	lo, _ := kindRange(v.kind)
	if lo.Sign() < 0 {
		if decide(tCmp("<", t, tInt(0))) {
			neg = true
			t = tSub(tInt(0), t) // mathematical negation: no wrap in Int mode
		}
	}
	// number of digits
	nd := 1
	p := big.NewInt(10)
	for ; nd < 20; nd++ {
		if decide(tCmp("<", t, tConst(new(big.Int).Set(p)))) {
			break
		}
		p = new(big.Int).Mul(p, big.NewInt(10))
	}
	digits := make([]value, nd)
	// work in uint64 arithmetic on the magnitude (fits: |v| <= 2^64-1)
	var q value = mkSym(types.Uint64, t)
	u64 := types.Typ[types.Uint64]
	for i := nd - 1; i >= 0; i-- {
		var d value
		if i == 0 {
			d = q
		} else {
			d = binop(token.REM, u64, q, uint64(10))
			q = binop(token.QUO, u64, q, uint64(10))
		}
		dt := termOf(d)
		digits[i] = mkSym(types.Uint8, tAdd(dt, tInt('0')))
	}
	if neg {
		digits = append([]value{byte('-')}, digits...)
	}
	return digits
}

func init() {
	fmtUint := func(fr *frame, args []value) value {
		sv, ok := args[0].(symv)
		base := asInt64(args[1])
		if !ok {
			panic(unsupported("FormatUint intrinsic called with a concrete value"))
		}
		if base != 10 {
			panic(unsupported("FormatUint of a symbolic value in a base other than 10"))
		}
		return mkStr(symDecimal(sv))
	}
	symIntrinsics["strconv.FormatUint"] = fmtUint
	symIntrinsics["strconv.FormatInt"] = fmtUint
	symIntrinsics["strconv.Itoa"] = func(fr *frame, args []value) value {
		return mkStr(symDecimal(args[0].(symv)))
	}
}
