package exec

import (
	"hash/fnv"
	"reflect"
	"strings"
	"unsafe"

	"golang.org/x/tools/go/ssa"
)

// fingerprint hashes everything reachable from the package-level variables of the
// repository's packages (scalar leaves, shapes and object identities). It is compared after
// every path with the value taken right after initialisation: a difference means the path
// wrote to package-level state (a cache, a registry), and the initialisers are re-run before
// the next path so that no path can observe what another one left behind.
func (s *Session) fingerprint() uint64 {
	h := fnv.New64a()
	var buf [8]byte
	put := func(x uint64) {
		for i := 0; i < 8; i++ {
			buf[i] = byte(x >> (8 * i))
		}
		h.Write(buf[:])
	}
	seen := map[uintptr]bool{}
	var walk func(v value, d int)
	walkSlice := func(xs []value, d int) {
		put(uint64(len(xs)))
		for _, x := range xs {
			walk(x, d+1)
		}
	}
	walk = func(v value, d int) {
		if d > 64 {
			return
		}
		switch v := v.(type) {
		case nil:
			put(1)
		case bool:
			if v {
				put(3)
			} else {
				put(2)
			}
		case int:
			put(uint64(v))
		case int8:
			put(uint64(v))
		case int16:
			put(uint64(v))
		case int32:
			put(uint64(v))
		case int64:
			put(uint64(v))
		case uint:
			put(uint64(v))
		case uint8:
			put(uint64(v))
		case uint16:
			put(uint64(v))
		case uint32:
			put(uint64(v))
		case uint64:
			put(v)
		case uintptr:
			put(uint64(v))
		case string:
			put(uint64(len(v)))
			h.Write([]byte(v))
		case symv, symm, symstr:
			put(77)
		case structure:
			walkSlice(v, d)
		case array:
			walkSlice(v, d)
		case tuple:
			walkSlice(v, d)
		case []value:
			if len(v) == 0 {
				put(4)
				return
			}
			a := uintptr(unsafe.Pointer(&v[0]))
			put(uint64(a))
			put(uint64(len(v)))
			if seen[a+uintptr(len(v))] {
				return
			}
			seen[a+uintptr(len(v))] = true
			walkSlice(v, d)
		case *value:
			a := uintptr(unsafe.Pointer(v))
			put(uint64(a))
			if v == nil || seen[a] {
				return
			}
			seen[a] = true
			walk(*v, d+1)
		case iface:
			if v.t == nil {
				put(5)
				return
			}
			put(uint64(hashType(v.t)))
			walk(v.v, d+1)
		case *omap:
			a := uintptr(unsafe.Pointer(v))
			put(uint64(a))
			if v == nil || seen[a] {
				return
			}
			seen[a] = true
			walkSlice(v.keys, d)
			walkSlice(v.vals, d)
		case *closure:
			a := uintptr(unsafe.Pointer(v))
			put(uint64(a))
			if v == nil || seen[a] {
				return
			}
			seen[a] = true
			walkSlice(v.Env, d)
		case *ssa.Function:
			put(uint64(uintptr(unsafe.Pointer(v))))
		case rtype:
			if v.t == nil {
				put(6)
			} else {
				put(uint64(hashType(v.t)))
			}
		default:
			rv := reflect.ValueOf(v)
			switch rv.Kind() {
			case reflect.Pointer, reflect.Chan, reflect.Map, reflect.Func:
				put(uint64(rv.Pointer()))
			default:
				put(9)
			}
		}
	}
	for _, pkg := range s.prog.AllPackages() {
		if !covPkgs[pkg.Pkg.Path()] {
			continue
		}
		var names []string
		for n, m := range pkg.Members {
			if _, ok := m.(*ssa.Global); ok {
				names = append(names, n)
			}
		}
		sortStrings(names)
		for _, n := range names {
			g := pkg.Members[n].(*ssa.Global)
			if n == "init$guard" || strings.Contains(s.prog.Fset.Position(g.Pos()).Filename, "zz_verif_") {
				continue // harness-side variables are reset by the harnesses themselves
			}
			walk(*s.i.globals[g], 0)
		}
	}
	return h.Sum64()
}

func sortStrings(a []string) {
	for i := 1; i < len(a); i++ {
		for j := i; j > 0 && a[j] < a[j-1]; j-- {
			a[j], a[j-1] = a[j-1], a[j]
		}
	}
}
