package exec

import "regexp"

// regexp is run natively on concrete arguments only (DESIGN 2.3-2): the compiled expression
// is a host object held opaquely by the interpreter.
func init() {
	externals["regexp.MustCompile"] = func(fr *frame, args []value) value {
		s, ok := args[0].(string)
		if !ok {
			panic(unsupported("regexp.MustCompile of a symbolic expression"))
		}
		return regexp.MustCompile(s)
	}
	externals["regexp.Compile"] = func(fr *frame, args []value) value {
		s, ok := args[0].(string)
		if !ok {
			panic(unsupported("regexp.Compile of a symbolic expression"))
		}
		re, err := regexp.Compile(s)
		if err != nil {
			panic(unsupported("regexp.Compile error path: " + err.Error()))
		}
		return tuple{re, iface{}}
	}
	externals["(*regexp.Regexp).MatchString"] = func(fr *frame, args []value) value {
		re, ok := args[0].(*regexp.Regexp)
		if !ok {
			panic(unsupported("regexp: receiver is not a natively compiled expression"))
		}
		s, ok := args[1].(string)
		if !ok {
			panic(unsupported("regexp.MatchString on a symbolic string"))
		}
		return re.MatchString(s)
	}
}
