package exec

// Symbolic layer (spike): Int-mode terms with explicit wrap-around,
// definitional div/mod, syntactic intervals.

import (
	"fmt"
	"go/token"
	"go/types"
	"math/big"
	"strings"
)

type Term struct {
	op     string // "const", "var", "bconst", "+", "-", "*", "neg", "ite", "=", "<", "<=", "not", "and", "or"
	args   []*Term
	val    *big.Int // const
	bval   bool     // bconst
	name   string   // var
	isBool bool
	lo, hi *big.Int // interval for Int terms (nil = unbounded)
	id     int
	def    *termDef // definitional variable (model.go)
	loInit *big.Int // low end of the declared range of a variable (default model value)
	// for quotient variables: x = divC*q + divR
	divOf *Term
	divC  *big.Int
	divR  *Term
}

var termCount int

func mkTerm(t *Term) *Term { termCount++; t.id = termCount; return t }

func tConst(v *big.Int) *Term { return mkTerm(&Term{op: "const", val: v, lo: v, hi: v}) }
func tInt(v int64) *Term      { return tConst(big.NewInt(v)) }
func tBool(b bool) *Term      { return mkTerm(&Term{op: "bconst", bval: b, isBool: true}) }

func (t *Term) isConst() bool { return t.op == "const" || t.op == "bconst" }

func addB(a, b *big.Int) *big.Int {
	if a == nil || b == nil {
		return nil
	}
	return new(big.Int).Add(a, b)
}
func subB(a, b *big.Int) *big.Int {
	if a == nil || b == nil {
		return nil
	}
	return new(big.Int).Sub(a, b)
}

func tAdd(x, y *Term) *Term {
	if x.op == "const" && y.op == "const" {
		return tConst(new(big.Int).Add(x.val, y.val))
	}
	if x.op == "const" && x.val.Sign() == 0 {
		return y
	}
	if y.op == "const" && y.val.Sign() == 0 {
		return x
	}
	return mkTerm(&Term{op: "+", args: []*Term{x, y}, lo: addB(x.lo, y.lo), hi: addB(x.hi, y.hi)})
}
func tSub(x, y *Term) *Term {
	if x.op == "const" && y.op == "const" {
		return tConst(new(big.Int).Sub(x.val, y.val))
	}
	if x == y {
		return tInt(0)
	}
	if y.op == "const" && y.val.Sign() == 0 {
		return x
	}
	// x - c*q where q = x div c  ==>  x mod c
	if y.op == "*" && y.args[0].op == "const" {
		if q := y.args[1]; q.divOf == x && q.divC.Cmp(y.args[0].val) == 0 {
			return q.divR
		}
	}
	return mkTerm(&Term{op: "-", args: []*Term{x, y}, lo: subB(x.lo, y.hi), hi: subB(x.hi, y.lo)})
}
func tMulC(x *Term, c *big.Int) *Term {
	if x.op == "const" {
		return tConst(new(big.Int).Mul(x.val, c))
	}
	if c.Sign() == 0 {
		return tInt(0)
	}
	if c.Cmp(big.NewInt(1)) == 0 {
		return x
	}
	var lo, hi *big.Int
	if x.lo != nil && x.hi != nil {
		a, b := new(big.Int).Mul(x.lo, c), new(big.Int).Mul(x.hi, c)
		if a.Cmp(b) > 0 {
			a, b = b, a
		}
		lo, hi = a, b
	}
	return mkTerm(&Term{op: "*", args: []*Term{tConst(c), x}, lo: lo, hi: hi})
}
func tNot(x *Term) *Term {
	if x.op == "bconst" {
		return tBool(!x.bval)
	}
	if x.op == "not" {
		return x.args[0]
	}
	return mkTerm(&Term{op: "not", args: []*Term{x}, isBool: true})
}
func tCmp(op string, x, y *Term) *Term {
	if x == y {
		return tBool(op != "<")
	}
	if x.op == "const" && y.op == "const" {
		c := x.val.Cmp(y.val)
		switch op {
		case "=":
			return tBool(c == 0)
		case "<":
			return tBool(c < 0)
		case "<=":
			return tBool(c <= 0)
		}
	}
	// interval shortcuts
	if x.hi != nil && y.lo != nil {
		if op == "<" && x.hi.Cmp(y.lo) < 0 {
			return tBool(true)
		}
		if op == "<=" && x.hi.Cmp(y.lo) <= 0 {
			return tBool(true)
		}
		if op == "=" && x.hi.Cmp(y.lo) < 0 {
			return tBool(false)
		}
	}
	if x.lo != nil && y.hi != nil {
		if op == "<" && x.lo.Cmp(y.hi) >= 0 {
			return tBool(false)
		}
		if op == "<=" && x.lo.Cmp(y.hi) > 0 {
			return tBool(false)
		}
		if op == "=" && x.lo.Cmp(y.hi) > 0 {
			return tBool(false)
		}
	}
	return mkTerm(&Term{op: op, args: []*Term{x, y}, isBool: true})
}
func tBoolEq(x, y *Term) *Term {
	if x.op == "bconst" && y.op == "bconst" {
		return tBool(x.bval == y.bval)
	}
	return mkTerm(&Term{op: "=", args: []*Term{x, y}, isBool: true})
}
func tAnd(x, y *Term) *Term {
	if x.op == "bconst" {
		if x.bval {
			return y
		}
		return x
	}
	if y.op == "bconst" {
		if y.bval {
			return x
		}
		return y
	}
	return mkTerm(&Term{op: "and", args: []*Term{x, y}, isBool: true})
}

func tOr(x, y *Term) *Term {
	if x.op == "bconst" {
		if x.bval {
			return x
		}
		return y
	}
	if y.op == "bconst" {
		if y.bval {
			return y
		}
		return x
	}
	return mkTerm(&Term{op: "or", args: []*Term{x, y}, isBool: true})
}

func (t *Term) smt(sb *strings.Builder) {
	switch t.op {
	case "const":
		if t.val.Sign() < 0 {
			fmt.Fprintf(sb, "(- %s)", new(big.Int).Neg(t.val).String())
		} else {
			sb.WriteString(t.val.String())
		}
	case "bconst":
		if t.bval {
			sb.WriteString("true")
		} else {
			sb.WriteString("false")
		}
	case "var":
		sb.WriteString(t.name)
	case "neg":
		sb.WriteString("(- ")
		t.args[0].smt(sb)
		sb.WriteString(")")
	default:
		sb.WriteString("(")
		sb.WriteString(t.op)
		for _, a := range t.args {
			sb.WriteString(" ")
			a.smt(sb)
		}
		sb.WriteString(")")
	}
}
func (t *Term) String() string { var sb strings.Builder; t.smt(&sb); return sb.String() }

// symv is a symbolic scalar of a Go basic type (integer kinds and bool).
type symv struct {
	kind types.BasicKind
	t    *Term
}

// symm is a mathematical (unbounded) integer used by harness oracles.
type symm struct{ t *Term }

func kindRange(k types.BasicKind) (lo, hi *big.Int) {
	bits := map[types.BasicKind]uint{types.Int: 64, types.Int8: 8, types.Int16: 16, types.Int32: 32, types.Int64: 64,
		types.Uint: 64, types.Uint8: 8, types.Uint16: 16, types.Uint32: 32, types.Uint64: 64, types.Uintptr: 64}[k]
	if bits == 0 {
		panic(unsupported(fmt.Sprintf("kindRange %v", k)))
	}
	switch k {
	case types.Int, types.Int8, types.Int16, types.Int32, types.Int64:
		hi = new(big.Int).Lsh(big.NewInt(1), bits-1)
		lo = new(big.Int).Neg(hi)
		hi = new(big.Int).Sub(hi, big.NewInt(1))
	default:
		lo = big.NewInt(0)
		hi = new(big.Int).Sub(new(big.Int).Lsh(big.NewInt(1), bits), big.NewInt(1))
	}
	return
}

func basicKind(t types.Type) types.BasicKind {
	if b, ok := t.Underlying().(*types.Basic); ok {
		k := b.Kind()
		switch k {
		case types.UntypedInt:
			return types.Int
		case types.UntypedBool:
			return types.Bool
		case types.UntypedRune:
			return types.Int32
		}
		return k
	}
	panic(unsupported("basicKind of " + t.String()))
}

// termOf converts a concrete or symbolic scalar to a term.
func termOf(v value) *Term {
	switch v := v.(type) {
	case symv:
		return v.t
	case symm:
		return v.t
	case bool:
		return tBool(v)
	case int:
		return tInt(int64(v))
	case int8:
		return tInt(int64(v))
	case int16:
		return tInt(int64(v))
	case int32:
		return tInt(int64(v))
	case int64:
		return tInt(v)
	case uint:
		return tConst(new(big.Int).SetUint64(uint64(v)))
	case uint8:
		return tInt(int64(v))
	case uint16:
		return tInt(int64(v))
	case uint32:
		return tInt(int64(v))
	case uint64:
		return tConst(new(big.Int).SetUint64(v))
	case uintptr:
		return tConst(new(big.Int).SetUint64(uint64(v)))
	}
	panic(unsupported(fmt.Sprintf("termOf %T", v)))
}

// concretize returns the Go value of kind k for a constant term.
func concretize(k types.BasicKind, t *Term) value {
	if t.op == "bconst" {
		return t.bval
	}
	v := t.val
	switch k {
	case types.Int:
		return int(v.Int64())
	case types.Int8:
		return int8(v.Int64())
	case types.Int16:
		return int16(v.Int64())
	case types.Int32:
		return int32(v.Int64())
	case types.Int64:
		return v.Int64()
	case types.Uint:
		return uint(v.Uint64())
	case types.Uint8:
		return uint8(v.Uint64())
	case types.Uint16:
		return uint16(v.Uint64())
	case types.Uint32:
		return uint32(v.Uint64())
	case types.Uint64:
		return v.Uint64()
	case types.Uintptr:
		return uintptr(v.Uint64())
	}
	panic(unsupported(fmt.Sprintf("concretize kind %v", k)))
}

func mkSym(k types.BasicKind, t *Term) value {
	if t.isConst() {
		return concretize(k, t)
	}
	return symv{k, t}
}

func isSym(v value) bool {
	switch v.(type) {
	case symv, symm:
		return true
	}
	return false
}

type unsupportedErr struct {
	msg    string
	budget bool // a step/depth budget was hit: non-termination candidate
}

func unsupported(msg string) unsupportedErr { return unsupportedErr{msg: msg} }
func budgetHit(msg string) unsupportedErr   { return unsupportedErr{msg: msg, budget: true} }

// wrapTo reduces t into the range of kind k (definitionally), eliding the wrap when the interval fits.
func wrapTo(k types.BasicKind, t *Term) *Term {
	lo, hi := kindRange(k)
	if t.lo != nil && t.hi != nil && t.lo.Cmp(lo) >= 0 && t.hi.Cmp(hi) <= 0 {
		return t
	}
	if t.op == "const" {
		m := new(big.Int).Add(new(big.Int).Sub(hi, lo), big.NewInt(1))
		v := new(big.Int).Sub(t.val, lo)
		v.Mod(v, m)
		v.Add(v, lo)
		return tConst(v)
	}
	p := curPath()
	y := p.fresh("w", lo, hi)
	kq := p.fresh("k", nil, nil)
	m := new(big.Int).Add(new(big.Int).Sub(hi, lo), big.NewInt(1))
	y.def = &termDef{kind: "wrapy", of: t, c: m, lo: lo}
	kq.def = &termDef{kind: "wrapk", of: t, c: m, lo: lo}
	p.side(tCmp("=", t, tAdd(y, tMulC(kq, m))))
	return y
}

func symBinop(op token.Token, t types.Type, x, y value) value {
	if _, ok := x.(symm); ok {
		panic(unsupported("binop on mInt"))
	}
	k := basicKind(t)
	xt, yt := termOf(x), termOf(y)
	if k == types.Bool {
		switch op {
		case token.EQL:
			return mkSym(types.Bool, tBoolEq(xt, yt))
		case token.NEQ:
			return mkSym(types.Bool, tNot(tBoolEq(xt, yt)))
		}
		panic(unsupported("bool binop " + op.String()))
	}
	switch op {
	case token.ADD:
		return mkSym(k, wrapTo(k, tAdd(xt, yt)))
	case token.SUB:
		return mkSym(k, wrapTo(k, tSub(xt, yt)))
	case token.MUL:
		if yt.op == "const" {
			return mkSym(k, wrapTo(k, tMulC(xt, yt.val)))
		}
		if xt.op == "const" {
			return mkSym(k, wrapTo(k, tMulC(yt, xt.val)))
		}
		panic(unsupported("symbolic * symbolic"))
	case token.QUO, token.REM:
		if yt.op != "const" || yt.val.Sign() <= 0 {
			panic(unsupported("division by non-constant or non-positive"))
		}
		if xt.lo == nil || xt.lo.Sign() < 0 {
			panic(unsupported("division of possibly negative value"))
		}
		p := curPath()
		c := yt.val
		if c.Cmp(big.NewInt(1)) == 0 {
			if op == token.QUO {
				return mkSym(k, xt)
			}
			return concretize(k, tInt(0))
		}
		key := fmt.Sprintf("%d/%s", xt.id, c.String())
		var q, r *Term
		if qr, ok := p.divMemo[key]; ok {
			q, r = qr[0], qr[1]
		} else {
			q = p.fresh("q", big.NewInt(0), new(big.Int).Div(xt.hi, c))
			r = p.fresh("r", big.NewInt(0), new(big.Int).Sub(c, big.NewInt(1)))
			p.side(tCmp("=", xt, tAdd(tMulC(q, c), r)))
			if p.divMemo == nil {
				p.divMemo = map[string][2]*Term{}
			}
			p.divMemo[key] = [2]*Term{q, r}
			q.divOf, q.divC, q.divR = xt, c, r
			q.def = &termDef{kind: "divq", of: xt, c: c}
			r.def = &termDef{kind: "divr", of: xt, c: c}
		}
		if op == token.QUO {
			return mkSym(k, q)
		}
		return mkSym(k, r)
	case token.SHL, token.SHR:
		// shifts by a constant of a non-negative value: * 2^c (wrapped to the type) and div 2^c
		if yt.op == "const" && yt.val.Sign() >= 0 && yt.val.IsInt64() && yt.val.Int64() < 64 && xt.lo != nil && xt.lo.Sign() >= 0 {
			p2 := new(big.Int).Lsh(big.NewInt(1), uint(yt.val.Int64()))
			if op == token.SHL {
				return mkSym(k, wrapTo(k, tMulC(xt, p2)))
			}
			return symBinop(token.QUO, t, x, concretize(k, tConst(p2)))
		}
	case token.AND_NOT:
		if yt.op == "const" && yt.val.Sign() == 0 {
			return mkSym(k, xt)
		}
		// x &^ all-ones
		if yt.op == "const" && yt.val.Cmp(big.NewInt(-1)) == 0 {
			return concretize(k, tInt(0))
		}
	case token.OR, token.XOR:
		if yt.op == "const" && yt.val.Sign() == 0 {
			return mkSym(k, xt)
		}
		if xt.op == "const" && xt.val.Sign() == 0 {
			return mkSym(k, yt)
		}
		// a | b where a is a multiple of 2^j and 0 <= b < 2^j: the bits are disjoint, a + b
		if op == token.OR {
			for _, pr := range [][2]*Term{{xt, yt}, {yt, xt}} {
				a, b := pr[0], pr[1]
				if b.lo != nil && b.lo.Sign() >= 0 && b.hi != nil && a.lo != nil && a.lo.Sign() >= 0 {
					j := uint(b.hi.BitLen())
					if termMultipleOf(a, new(big.Int).Lsh(big.NewInt(1), j)) {
						return mkSym(k, wrapTo(k, tAdd(a, b)))
					}
				}
			}
		}
		// x | 2^j for a non-negative x: x + 2^j*(1 - bit_j(x)), bit_j(x) = (x div 2^j) mod 2
		if op == token.OR {
			ct, vt := yt, xt
			if xt.op == "const" {
				ct, vt = xt, yt
			}
			if ct.op == "const" && ct.val.Sign() > 0 && new(big.Int).And(ct.val, new(big.Int).Sub(ct.val, big.NewInt(1))).Sign() == 0 && vt.lo != nil && vt.lo.Sign() >= 0 {
				u64 := types.Typ[types.Uint64]
				q := symBinop(token.QUO, u64, mkSym(types.Uint64, vt), concretize(types.Uint64, tConst(ct.val)))
				b := symBinop(token.REM, u64, q, uint64(2))
				bt := termOf(b)
				return mkSym(k, wrapTo(k, tSub(tAdd(vt, tConst(ct.val)), tMulC(bt, ct.val))))
			}
		}
	case token.AND:
		if yt.op == "const" && yt.val.Sign() == 0 || xt.op == "const" && xt.val.Sign() == 0 {
			return concretize(k, tInt(0))
		}
		// x & (2^j - 1) for a non-negative x: x mod 2^j
		{
			ct, v := yt, x
			if xt.op == "const" {
				ct, v = xt, y
			}
			vt := termOf(v)
			if ct.op == "const" && ct.val.Sign() > 0 && vt.lo != nil && vt.lo.Sign() >= 0 {
				p2 := new(big.Int).Add(ct.val, big.NewInt(1))
				if new(big.Int).And(p2, ct.val).Sign() == 0 { // ct = 2^j - 1
					if vt.hi != nil && vt.hi.Cmp(ct.val) <= 0 {
						return mkSym(k, vt)
					}
					return symBinop(token.REM, t, mkSym(k, vt), concretize(k, tConst(p2)))
				}
			}
		}
	case token.EQL:
		return mkSym(types.Bool, tCmp("=", xt, yt))
	case token.NEQ:
		return mkSym(types.Bool, tNot(tCmp("=", xt, yt)))
	case token.LSS:
		return mkSym(types.Bool, tCmp("<", xt, yt))
	case token.LEQ:
		return mkSym(types.Bool, tCmp("<=", xt, yt))
	case token.GTR:
		return mkSym(types.Bool, tCmp("<", yt, xt))
	case token.GEQ:
		return mkSym(types.Bool, tCmp("<=", yt, xt))
	}
	panic(unsupported("symbolic binop " + op.String()))
}

func symUnop(op token.Token, t types.Type, x value) value {
	k := basicKind(t)
	xt := termOf(x)
	switch op {
	case token.NOT:
		return mkSym(types.Bool, tNot(xt))
	case token.SUB:
		return mkSym(k, wrapTo(k, tSub(tInt(0), xt)))
	}
	panic(unsupported("symbolic unop " + op.String()))
}

func symConv(dst types.Type, x symv) value {
	k := basicKind(dst)
	if k == types.Bool || x.kind == types.Bool {
		panic(unsupported("bool conversion"))
	}
	switch k {
	case types.Float32, types.Float64, types.String:
		panic(unsupported("symbolic conversion to " + dst.String()))
	}
	return mkSym(k, wrapTo(k, x.t))
}

// termMultipleOf reports whether t is syntactically a multiple of c (c a power of two).
func termMultipleOf(t *Term, c *big.Int) bool {
	switch t.op {
	case "const":
		return new(big.Int).Mod(t.val, c).Sign() == 0
	case "*":
		return t.args[0].op == "const" && new(big.Int).Mod(t.args[0].val, c).Sign() == 0
	case "+":
		return termMultipleOf(t.args[0], c) && termMultipleOf(t.args[1], c)
	}
	return false
}
