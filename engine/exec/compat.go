package exec

import "go/types"

func mustDeref(t types.Type) types.Type {
	if p, ok := t.Underlying().(*types.Pointer); ok {
		return p.Elem()
	}
	panic("mustDeref: not a pointer: " + t.String())
}

func coreType(t types.Type) types.Type { return t.Underlying() }
