package exec

import (
	"go/token"
	"go/types"

	"golang.org/x/tools/go/ssa"
)

// deepSym reports whether any argument contains a symbolic scalar (looking into structs).
func deepSym(args []value) bool {
	for _, a := range args {
		switch a := a.(type) {
		case symv, symstr:
			return true
		case structure:
			if deepSym([]value(a)) {
				return true
			}
		}
	}
	return false
}

// summarize enumerates every syntactic path of the pure callee fn without consulting the
// solver and returns its scalar result as one term ite(pc1, r1, ite(pc2, r2, ...)).
// Infeasible combinations only add arms whose condition is unsatisfiable, which does not
// change the value of the term. If a callee path panics or exceeds its budget, or the result
// is not a scalar, ok is false and the caller executes the callee in the ordinary forking way.
func summarize(i *interpreter, caller *frame, callpos token.Pos, fn *ssa.Function, args []value, env []value) (res value, ok bool) {
	e := theExplorer
	p := e.cur
	sig := fn.Signature
	if sig.Results().Len() != 1 {
		return nil, false
	}
	b, isBasic := sig.Results().At(0).Type().Underlying().(*types.Basic)
	if !isBasic || b.Info()&(types.IsInteger|types.IsBoolean) == 0 {
		return nil, false
	}
	kind := basicKind(sig.Results().At(0).Type())
	type arm struct {
		conds []*Term
		r     *Term
	}
	var arms []arm
	work := [][]bool{nil}
	depth0, steps0 := callDepth, p.steps
	failed := false
	for len(work) > 0 && !failed {
		if len(arms) > 256 {
			failed = true
			break
		}
		prefix := work[len(work)-1]
		work = work[:len(work)-1]
		sm := &summaryRun{prefix: prefix, decided: map[string]bool{}}
		e.summary = sm
		var r value
		func() {
			defer func() {
				if rec := recover(); rec != nil {
					failed = true
				}
			}()
			r = callSSA(i, caller, callpos, fn, args, env)
		}()
		e.summary = nil
		callDepth = depth0
		if failed {
			break
		}
		work = append(work, sm.work...)
		arms = append(arms, arm{sm.conds, termOf(r)})
	}
	_ = steps0
	if failed || len(arms) == 0 {
		return nil, false
	}
	// build the ite chain; the last arm is the default
	t := arms[len(arms)-1].r
	for k := len(arms) - 2; k >= 0; k-- {
		c := tBool(true)
		for _, x := range arms[k].conds {
			c = tAnd(c, x)
		}
		t = tIte(c, arms[k].r, t, kind == types.Bool)
	}
	return mkSym(kind, t), true
}

func tIte(c, a, b *Term, isBool bool) *Term {
	if c.op == "bconst" {
		if c.bval {
			return a
		}
		return b
	}
	if a == b {
		return a
	}
	if isBool {
		if a.op == "bconst" && b.op == "bconst" {
			if a.bval == b.bval {
				return a
			}
			if a.bval {
				return c
			}
			return tNot(c)
		}
		return tOr(tAnd(c, a), tAnd(tNot(c), b))
	}
	t := mkTerm(&Term{op: "ite", args: []*Term{c, a, b}})
	if a.lo != nil && b.lo != nil {
		t.lo = a.lo
		if b.lo.Cmp(t.lo) < 0 {
			t.lo = b.lo
		}
	}
	if a.hi != nil && b.hi != nil {
		t.hi = a.hi
		if b.hi.Cmp(t.hi) > 0 {
			t.hi = b.hi
		}
	}
	return t
}
