package yang

import "testing"

func TestReproM2(t *testing.T) {
	ms, errs := zproc(t, map[string]string{
		"m": `module m { namespace "urn:m"; prefix m; rpc r { } }`,
		"a": `module a { namespace "urn:a"; prefix a; import m { prefix m; } augment /m:r/m:output { leaf x { type string; } } }`,
	})
	if len(errs) != 0 {
		t.Fatal(errs)
	}
	x := ToEntry(ms.Modules["m"]).Find("/m:r/m:output/a:x")
	if x == nil {
		t.Fatal("nil x")
	}
	if x.Path() != "/m/r/output/x" {
		t.Error(x.Path())
	}
	if mod, err := x.InstantiatingModule(); err != nil || mod != "a" {
		t.Error(mod, err)
	}
	if mod, err := x.Parent.InstantiatingModule(); err != nil || mod != "m" {
		t.Error(mod, err)
	}
	if !x.ReadOnly() {
		t.Error("not RO")
	}
}
