package yang

import "testing"

func TestObsActionNoIO(t *testing.T) {
	_, errs := zproc(t, map[string]string{
		"m": `module m { namespace "urn:m"; prefix m; container c { action act { } } augment /m:c/m:act/m:output { leaf z { type string; } } }`,
	})
	t.Logf("action without input/output, augment output: %v", errs)
}

func TestObsDupRPC(t *testing.T) {
	ms, errs := zproc(t, map[string]string{
		"m": `module m { namespace "urn:m"; prefix m; grouping g { action r { input { leaf x { type string; } } } } container a { uses g; } container b { uses g; } }`,
	})
	if len(errs) != 0 {
		t.Fatal(errs)
	}
	root := ToEntry(ms.Modules["m"])
	ax := root.Find("/m:a/m:r/m:input/m:x")
	bx := root.Find("/m:b/m:r/m:input/m:x")
	t.Logf("a path %s, b path %s, same=%v", ax.Path(), bx.Path(), ax == bx)
}
