package yang

import (
	"strings"
	"testing"
)

func zproc(t *testing.T, mods map[string]string) (*Modules, []error) {
	t.Helper()
	ms := NewModules()
	for n, text := range mods {
		if err := ms.Parse(text, n+".yang"); err != nil {
			t.Fatalf("parse %s: %v", n, err)
		}
	}
	return ms, ms.Process()
}

// zwalk returns all entry errors found walking Dir and RPC in/out.
func zwalk(e *Entry, f func(*Entry)) {
	if e == nil {
		return
	}
	f(e)
	for _, c := range e.Dir {
		zwalk(c, f)
	}
	if e.RPC != nil {
		zwalk(e.RPC.Input, f)
		zwalk(e.RPC.Output, f)
	}
}

func zcheckClean(t *testing.T, ms *Modules, errs []error) {
	t.Helper()
	if len(errs) != 0 {
		return
	}
	for _, m := range ms.Modules {
		zwalk(ToEntry(m), func(e *Entry) {
			if len(e.Errors) != 0 {
				t.Errorf("Process returned no errors but %s has errors %v", e.Path(), e.Errors)
			}
		})
	}
}

func zhas(errs []error, sub string) bool {
	for _, e := range errs {
		if strings.Contains(e.Error(), sub) {
			return true
		}
	}
	return false
}

func TestReproH(t *testing.T) {
	for _, text := range []string{
		`module m { namespace "urn:m"; prefix m; grouping g { uses g; } container c { uses g; } }`,
		`module m { namespace "urn:m"; prefix m; grouping g { uses h; } grouping h { uses g; } container c { uses g; } }`,
		`module m { namespace "urn:m"; prefix m; grouping g { leaf a { type string; } container x { uses h; } } grouping h { list l { key k; leaf k { type string; } uses g; } } }`,
	} {
		ms, errs := zproc(t, map[string]string{"m": text})
		if len(errs) == 0 {
			t.Errorf("H: no errors for %s", text)
		}
		t.Logf("H errs: %v", errs)
		zcheckClean(t, ms, errs)
	}
	// non-recursive multiple use must remain fine
	ms, errs := zproc(t, map[string]string{"m": `module m { namespace "urn:m"; prefix m; grouping g { leaf a { type string; } } grouping h { container x { uses g; } container y { uses g; } } container c { uses h; } container d { uses h; uses g; } }`})
	if len(errs) != 0 {
		t.Errorf("H: unexpected errors %v", errs)
	}
	if ToEntry(ms.Modules["m"]).Find("/m:d/m:y/m:a") == nil {
		t.Errorf("H: missing /d/y/a")
	}
}

func TestReproI(t *testing.T) {
	ms, errs := zproc(t, map[string]string{"m": `module m { namespace "urn:m"; prefix m;
 grouping g { list l { key k; leaf k {type string;} } leaf-list ll { type string; } }
 container a { uses g; } container b { uses g; }
 deviation /m:a/m:l { deviate add { min-elements 3; } }
 deviation /m:a/m:ll { deviate add { min-elements 4; } }
}`})
	if len(errs) != 0 {
		t.Fatalf("I: %v", errs)
	}
	e := ToEntry(ms.Modules["m"])
	if got := e.Find("/m:a/m:l").ListAttr.MinElements; got != 3 {
		t.Errorf("a/l min = %d", got)
	}
	if got := e.Find("/m:b/m:l").ListAttr.MinElements; got != 0 {
		t.Errorf("b/l min = %d, want 0", got)
	}
	if got := e.Find("/m:a/m:ll").ListAttr.MinElements; got != 4 {
		t.Errorf("a/ll min = %d", got)
	}
	if got := e.Find("/m:b/m:ll").ListAttr.MinElements; got != 0 {
		t.Errorf("b/ll min = %d, want 0", got)
	}
}

func TestReproJ(t *testing.T) {
	ms, errs := zproc(t, map[string]string{"m": `module m { namespace "urn:m"; prefix m; leaf x {type string;} augment /m:x { leaf y {type string;} } }`})
	t.Logf("J errs: %v", errs)
	if len(errs) == 0 {
		t.Errorf("J: no errors")
	}
	zcheckClean(t, ms, errs)
	// leaf-list target too
	_, errs = zproc(t, map[string]string{"m": `module m { namespace "urn:m"; prefix m; leaf-list x {type string;} augment /m:x { leaf y {type string;} } }`})
	if len(errs) == 0 {
		t.Errorf("J: no errors (leaf-list)")
	}
}

func TestReproK1(t *testing.T) {
	for i := 0; i < 20; i++ {
		ms, errs := zproc(t, map[string]string{
			"m": `module m { namespace "urn:m"; prefix m; container c { } }`,
			"a": `module a { namespace "urn:a"; prefix a; import m { prefix m; } augment /m:c { leaf x { type string; } } }`,
			"b": `module b { namespace "urn:b"; prefix b; import m { prefix m; } augment /m:c { leaf x { type string; } } }`,
		})
		if i == 0 {
			t.Logf("K1 errs: %v", errs)
		}
		if len(errs) == 0 {
			t.Fatalf("K1: no errors")
		}
		zcheckClean(t, ms, errs)
	}
}

func TestReproK2(t *testing.T) {
	for _, text := range []string{
		`module m { namespace "urn:m"; prefix m; leaf x { type string; } deviation /m:x { deviate replace { type nosuch; } } }`,
		`module m { namespace "urn:m"; prefix m; leaf x { type string; } deviation /m:x { deviate add { config maybe; } } }`,
		`module m { namespace "urn:m"; prefix m; leaf-list x { type string; } deviation /m:x { deviate add { max-elements 0; } } }`,
	} {
		ms, errs := zproc(t, map[string]string{"m": text})
		t.Logf("K2 errs: %v", errs)
		if len(errs) == 0 {
			t.Errorf("K2: no errors for %s", text)
		}
		zcheckClean(t, ms, errs)
	}
}

func TestReproL(t *testing.T) {
	for _, text := range []string{
		`module m { namespace "urn:m"; prefix m; rpc r { input { leaf x { type nosuch; } uses nosuch; } } }`,
		`module m { namespace "urn:m"; prefix m; rpc r { output { leaf x { type nosuch; } } } }`,
		`module m { namespace "urn:m"; prefix m; container c { action r { output { leaf x { type nosuch; } } } } }`,
		`module m { namespace "urn:m"; prefix m; grouping g { action r { input { leaf x { type nosuch; } } } } container c { uses g; } }`,
	} {
		ms, errs := zproc(t, map[string]string{"m": text})
		t.Logf("L errs: %v", errs)
		if len(errs) == 0 {
			t.Errorf("L: no errors for %s", text)
		}
		zcheckClean(t, ms, errs)
	}
}

func TestReproM(t *testing.T) {
	ms, errs := zproc(t, map[string]string{
		"m": `module m { namespace "urn:m"; prefix m; rpc r { } rpc s { } container c { action act { input { leaf q { type string; } } } }
  augment /m:r/m:input { leaf x { type string; } }
  augment /m:c/m:act/m:output { leaf z { type string; } } }`,
	})
	if len(errs) != 0 {
		t.Fatalf("M: %v", errs)
	}
	root := ToEntry(ms.Modules["m"])
	x := root.Find("/m:r/m:input/m:x")
	if x == nil {
		t.Fatalf("M: x not found")
	}
	if got := x.Path(); got != "/m/r/input/x" {
		t.Errorf("M: x path %q", got)
	}
	in := root.Find("/m:r/m:input")
	if in.Parent == nil || in.Node == nil || in.Kind != InputEntry || in.Dir == nil {
		t.Errorf("M: input improper: parent=%v node=%v kind=%v", in.Parent, in.Node, in.Kind)
	}
	if mod, err := x.InstantiatingModule(); err != nil || mod != "m" {
		t.Errorf("M: InstantiatingModule %q %v", mod, err)
	}
	if ns := x.Namespace(); ns == nil || ns.Name != "urn:m" {
		t.Errorf("M: ns %v", ns)
	}
	if got := x.Find("/m:r"); got == nil {
		t.Errorf("M: absolute find from x failed")
	}
	out := root.Find("/m:s/m:output")
	if out == nil {
		t.Fatalf("M: s/output nil")
	}
	if got := out.Path(); got != "/m/s/output" {
		t.Errorf("M: out path %q", got)
	}
	if out.Parent == nil || out.Node == nil || out.Kind != OutputEntry || out.Dir == nil {
		t.Errorf("M: output improper")
	}
	if mod, err := out.InstantiatingModule(); err != nil || mod != "m" {
		t.Errorf("M: out InstantiatingModule %q %v", mod, err)
	}
	if got := out.Find("/m:r"); got == nil {
		t.Errorf("M: absolute find from out failed")
	}
	if !out.ReadOnly() {
		t.Errorf("M: out not RO")
	}
	z := root.Find("/m:c/m:act/m:output/m:z")
	if z == nil {
		t.Fatalf("M: z nil")
	}
	if got := z.Path(); got != "/m/c/act/output/z" {
		t.Errorf("M: z path %q", got)
	}
	if mod, err := z.InstantiatingModule(); err != nil || mod != "m" {
		t.Errorf("M: z InstantiatingModule %q %v", mod, err)
	}
}

func TestReproN(t *testing.T) {
	ms, errs := zproc(t, map[string]string{
		"m": `module m { namespace "urn:m"; prefix m; rpc r { input { leaf x { type string; } } } }`,
	})
	if len(errs) != 0 {
		t.Fatalf("N: %v", errs)
	}
	root := ToEntry(ms.Modules["m"])
	if got := root.Find("/m:r/bogus"); got != nil {
		t.Errorf("N: Find(/m:r/bogus) = %s, want nil", got.Path())
	}
	if got := root.Find("/m:r/bogus/m:input"); got != nil {
		t.Errorf("N: Find(/m:r/bogus/m:input) = %s, want nil", got.Path())
	}
	if got := root.Find("/m:r/m:input/m:x"); got == nil {
		t.Errorf("N: x not found")
	}
	if got := root.Find("/m:r/m:input/m:x/../.."); got == nil || got.Name != "r" {
		t.Errorf("N: .. failed")
	}
	if got := root.Find("/m:r/./m:input"); got == nil || got.Name != "input" {
		t.Errorf("N: . failed")
	}
}
