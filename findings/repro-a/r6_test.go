package yang

import "testing"

func TestRepro6(t *testing.T) {
	const max = "18446744073709551615"
	for _, tt := range []struct{ in, want string }{
		{"5.." + max + "|" + max, "5.." + max},
		{max + "|5.." + max, "5.." + max},
		{"5..18446744073709551614|" + max, "5.." + max},
		{"5..18446744073709551613|" + max, "5..18446744073709551613|" + max},
		{"1..2|5.." + max + "|" + max, "1..2|5.." + max},
		{"0.." + max + "|7", "0.." + max},
		{"-" + max + "..5|-" + max, "-" + max + "..5"},
		{"-" + max + "|-18446744073709551614..5", "-" + max + "..5"},
		{"-" + max + "|-18446744073709551613..5", "-" + max + "|-18446744073709551613..5"},
		{"-5..-1|0..3", "-5..3"},
		{"-5..-2|0..3", "-5..-2|0..3"},
		{"-" + max + ".." + max + "|" + max, "-" + max + ".." + max},
	} {
		got, err := ParseRangesInt(tt.in)
		if err != nil {
			t.Errorf("%s: %v", tt.in, err)
			continue
		}
		if got.String() != tt.want {
			t.Errorf("%s: got %v (%d parts), want %s", tt.in, got, len(got), tt.want)
		}
	}

	// Validate must compare consecutive parts.
	r := YangRange{
		YRange{FromInt(1), FromInt(2)},
		YRange{FromInt(5), FromInt(10)},
		YRange{FromInt(7), FromInt(12)},
	}
	if err := r.Validate(); err == nil {
		t.Errorf("Validate(%v) = nil, want overlapping error", r)
	}
	r = YangRange{
		YRange{FromInt(1), FromInt(2)},
		YRange{FromInt(5), FromInt(10)},
		YRange{FromInt(12), FromInt(12)},
	}
	if err := r.Validate(); err != nil {
		t.Errorf("Validate(%v) = %v, want nil", r, err)
	}
}
