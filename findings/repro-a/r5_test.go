package yang

import "testing"

func TestRepro5(t *testing.T) {
	b := NewBitfield()
	if err := b.Set("a", 1<<31-1); err != nil {
		t.Fatal(err)
	}
	if err := b.SetNext("b"); err != nil {
		t.Fatalf("SetNext: %v", err)
	}
	if got := b.Value("b"); got != 1<<31 {
		t.Errorf("b = %d, want %d", got, int64(1)<<31)
	}

	b = NewBitfield()
	if err := b.Set("a", MaxBitfieldSize-1); err != nil {
		t.Fatal(err)
	}
	if err := b.SetNext("b"); err == nil {
		t.Errorf("SetNext after max position: got b=%d, want error", b.Value("b"))
	} else {
		t.Log(err)
	}
	b = NewBitfield()
	b.Set("a", MaxBitfieldSize-2)
	if err := b.SetNext("b"); err != nil || b.Value("b") != MaxBitfieldSize-1 {
		t.Errorf("got %v %d", err, b.Value("b"))
	}

	e := NewEnumType()
	e.Set("a", MaxEnum)
	if err := e.SetNext("b"); err == nil {
		t.Error("enum: want error")
	} else {
		t.Log(err)
	}
	e = NewEnumType()
	e.Set("a", MaxEnum-1)
	if err := e.SetNext("b"); err != nil || e.Value("b") != MaxEnum {
		t.Errorf("got %v %d", err, e.Value("b"))
	}
}
