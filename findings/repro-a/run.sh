#!/bin/sh
# usage: run.sh <n> [pkgdir]
export GOFLAGS=-mod=mod GOPROXY=off GOSUMDB=off GOTOOLCHAIN=local
n=$1; pkg=${2:-pkg/yang}
cp /tmp/fix-a-repro/r${n}_test.go /tmp/fix-a/$pkg/zz_repro${n}_test.go
cd /tmp/fix-a && go test -vet=off -count=1 -run "TestRepro${n}\$" ./$pkg/ 2>&1 | tail -30
rm -f /tmp/fix-a/$pkg/zz_repro${n}_test.go
