package yang

import (
	"math"
	"testing"
)

func TestRepro2(t *testing.T) {
	if v, err := (Number{Value: 1<<64 - 1, Negative: true}).Int(); err == nil {
		t.Errorf("-(2^64-1): got %d, nil; want error", v)
	}
	if v, err := (Number{Value: 1<<63 + 1, Negative: true}).Int(); err == nil {
		t.Errorf("-(2^63+1): got %d, nil; want error", v)
	}
	if v, err := (Number{Value: 1 << 63, Negative: true}).Int(); err != nil || v != math.MinInt64 {
		t.Errorf("-(2^63): got %d, %v", v, err)
	}
	if v, err := (Number{Value: 1<<63 - 1, Negative: true}).Int(); err != nil || v != -math.MaxInt64 {
		t.Errorf("-(2^63-1): got %d, %v", v, err)
	}
	if v, err := (Number{Value: 0, Negative: true}).Int(); err != nil || v != 0 {
		t.Errorf("-0: got %d, %v", v, err)
	}
	if _, err := (Number{Value: 1 << 63}).Int(); err == nil {
		t.Errorf("2^63: want error")
	}
}
