package yang

import (
	"strings"
	"testing"
)

func TestRepro9(t *testing.T) {
	for _, tt := range []struct{ in, kw, err string }{
		{"/*/ a;", "", "f:1:1: missing closing */"},
		{"  /*/ a;", "", "f:1:3: missing closing */"},
		{"\n /*/ a;\n\n", "", "f:2:2: missing closing */"},
		{"/*/ */ a;", "a", ""},
		{"/*/*/ a;", "a", ""},
		{"/**/ a;", "a", ""},
		{"/***/ a;", "a", ""},
		{"/* x */ a;", "a", ""},
		{"/* x\n y **/ a;", "a", ""},
		{"/*", "", "f:1:1: missing closing */"},
		{"/* *", "", "f:1:1: missing closing */"},
		{"b; /*/ b */ a;", "b,a", ""},
	} {
		ss, err := Parse(tt.in, "f")
		if tt.err != "" {
			if err == nil {
				var kws []string
				for _, s := range ss {
					kws = append(kws, s.Keyword)
				}
				t.Errorf("%q: no error, statements %v", tt.in, kws)
			} else if !strings.HasPrefix(err.Error(), tt.err) {
				t.Errorf("%q: got %q, want prefix %q", tt.in, err.Error(), tt.err)
			}
			continue
		}
		if err != nil {
			t.Errorf("%q: %v", tt.in, err)
			continue
		}
		var kws []string
		for _, s := range ss {
			kws = append(kws, s.Keyword)
		}
		if got := strings.Join(kws, ","); got != tt.kw {
			t.Errorf("%q: got %v", tt.in, got)
		}
	}
}
