package yang

import (
	"strings"
	"testing"
)

func TestRepro8(t *testing.T) {
	for _, tt := range []struct{ in, want string }{
		{"a \"x\\\n\";", "f:1:5: invalid escape sequence"},
		{"a \"x\\q\";", "f:1:5: invalid escape sequence: \\q"},
		{"a \"x\\\t\";", "f:1:5: invalid escape sequence"},
		{"a \"x\\é\";", "f:1:5: invalid escape sequence"},
		{"a \"\n\n  \\\n\";", "f:3:3: invalid escape sequence"},
		{"a \"\\\n\";", "f:1:4: invalid escape sequence"},
	} {
		_, err := Parse(tt.in, "f")
		if err == nil {
			t.Errorf("%q: no error", tt.in)
			continue
		}
		if !strings.HasPrefix(err.Error(), tt.want) {
			t.Errorf("%q: got %q, want prefix %q", tt.in, err.Error(), tt.want)
		}
	}
}
