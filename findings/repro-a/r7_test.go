package indent

import (
	"errors"
	"testing"
)

// limitWriter accepts at most limit bytes in total.
type limitWriter struct {
	limit int
	got   []byte
}

func (w *limitWriter) Write(b []byte) (int, error) {
	room := w.limit - len(w.got)
	if room >= len(b) {
		w.got = append(w.got, b...)
		return len(b), nil
	}
	w.got = append(w.got, b[:room]...)
	return room, errors.New("full")
}

func TestRepro7(t *testing.T) {
	// ">>x" is 3 bytes; allow 1 more.
	u := &limitWriter{limit: 4}
	w := NewWriter(u, ">>")
	if n, err := w.Write([]byte("x")); n != 1 || err != nil {
		t.Fatalf("first write: %d, %v", n, err)
	}
	n, err := w.Write([]byte("ab"))
	if err == nil {
		t.Fatal("want error")
	}
	if n != 1 {
		t.Errorf("second write: n = %d, want 1 (underlying has %q)", n, u.got)
	}

	// Exhaustive: continuing a partial line, every limit.
	in := "ab\ncd\nef"
	full := "ab\n>>cd\n>>ef"
	// caller bytes delivered for each number of underlying bytes accepted
	want := []int{0, 1, 2, 3, 3, 3, 4, 5, 6, 6, 6, 7, 8}
	for k := 0; k < len(full); k++ {
		u := &limitWriter{limit: 3 + k}
		w := NewWriter(u, ">>")
		w.Write([]byte("x"))
		n, err := w.Write([]byte(in))
		if err == nil {
			t.Errorf("k=%d: want error", k)
		}
		if n != want[k] {
			t.Errorf("k=%d: n = %d, want %d (underlying %q)", k, n, want[k], u.got)
		}
	}
	// Same but starting a fresh line.
	full = ">>ab\n>>cd\n>>ef"
	want = []int{0, 0, 0, 1, 2, 3, 3, 3, 4, 5, 6, 6, 6, 7, 8}
	for k := 0; k < len(full); k++ {
		u := &limitWriter{limit: k}
		w := NewWriter(u, ">>")
		n, err := w.Write([]byte(in))
		if err == nil {
			t.Errorf("fresh k=%d: want error", k)
		}
		if n != want[k] {
			t.Errorf("fresh k=%d: n = %d, want %d (underlying %q)", k, n, want[k], u.got)
		}
	}
}
