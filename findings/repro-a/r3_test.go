package yang

import (
	"strings"
	"testing"
)

func TestRepro3(t *testing.T) {
	if n, err := ParseDecimal("0."+strings.Repeat("0", 256)+"1", 1); err == nil {
		t.Errorf("got %v, nil; want error", n)
	}
	if n, err := ParseDecimal("0."+strings.Repeat("0", 255)+"1", 18); err == nil {
		t.Errorf("got %v, nil; want error", n)
	}
	if n, err := ParseDecimal("0.01", 1); err == nil {
		t.Errorf("got %v, nil; want error", n)
	}
	if n, err := ParseDecimal("0.1", 1); err != nil || n != (Number{Value: 1, FractionDigits: 1}) {
		t.Errorf("got %v, %v", n, err)
	}
	if n, err := ParseDecimal("-1.25", 3); err != nil || n != (Number{Value: 1250, FractionDigits: 3, Negative: true}) {
		t.Errorf("got %v, %v", n, err)
	}
}
