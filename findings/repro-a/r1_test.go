package yang

import "testing"

func TestRepro1(t *testing.T) {
	for fa := uint8(0); fa <= 18; fa++ {
		for fb := uint8(0); fb <= 18; fb++ {
			a := Number{Negative: true, FractionDigits: fa}
			b := Number{FractionDigits: fb}
			if a.Less(b) || b.Less(a) || !a.Equal(b) || !b.Equal(a) {
				t.Errorf("fd %d/%d: -0<0=%v 0<-0=%v eq=%v", fa, fb, a.Less(b), b.Less(a), a.Equal(b))
			}
			c := Number{Negative: true, FractionDigits: fb}
			if a.Less(c) || c.Less(a) || !a.Equal(c) {
				t.Errorf("fd %d/%d: -0 vs -0", fa, fb)
			}
		}
	}
	// sanity
	if !(Number{Value: 1, Negative: true}).Less(Number{Negative: true}) {
		t.Error("-1 < -0 want true")
	}
	if (Number{Negative: true}).Less(Number{Value: 1, Negative: true}) {
		t.Error("-0 < -1 want false")
	}
	if !(Number{Negative: true}).Less(Number{Value: 1}) {
		t.Error("-0 < 1 want true")
	}
	if !(Number{Value: 1, Negative: true}).Less(Number{}) {
		t.Error("-1 < 0 want true")
	}
}
