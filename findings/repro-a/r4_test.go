package yang

import "testing"

func TestRepro4(t *testing.T) {
	e := NewEnumType()
	if err := e.Set("a", -5); err != nil {
		t.Fatal(err)
	}
	if err := e.SetNext("b"); err != nil {
		t.Fatal(err)
	}
	if got := e.Value("b"); got != -4 {
		t.Errorf("b = %d, want -4", got)
	}

	// Lower later value must not lower running max.
	e = NewEnumType()
	e.Set("a", 10)
	e.Set("b", -7)
	e.SetNext("c")
	if got := e.Value("c"); got != 11 {
		t.Errorf("c = %d, want 11", got)
	}

	// negative then lower negative
	e = NewEnumType()
	e.Set("a", -5)
	e.Set("b", -9)
	e.SetNext("c")
	if got := e.Value("c"); got != -4 {
		t.Errorf("c = %d, want -4", got)
	}

	// first member unassigned -> 0
	e = NewEnumType()
	e.SetNext("a")
	e.SetNext("b")
	if e.Value("a") != 0 || e.Value("b") != 1 {
		t.Errorf("a,b = %d,%d want 0,1", e.Value("a"), e.Value("b"))
	}

	// first is -1 explicitly: next is 0
	e = NewEnumType()
	e.Set("a", -1)
	e.SetNext("b")
	if e.Value("b") != 0 {
		t.Errorf("b = %d want 0", e.Value("b"))
	}

	// A failed first Set must not count as a member.
	e = NewEnumType()
	if err := e.Set("a", MinEnum-1); err == nil {
		t.Error("want error")
	}
	e.SetNext("b")
	if e.Value("b") != 0 {
		t.Errorf("b = %d want 0", e.Value("b"))
	}

	// MaxEnum
	e = NewEnumType()
	e.Set("a", MaxEnum)
	if err := e.SetNext("b"); err == nil {
		t.Error("want error after MaxEnum")
	}
}
