package yang

import (
	"strings"
	"testing"
)

func TestRepro10(t *testing.T) {
	sp := func(n int) string { return strings.Repeat(" ", n) }
	for _, tt := range []struct{ in, want string }{
		// quote is the 6th character
		{"/**/k\"\n" + sp(6) + "x\";", "\nx"},
		{"/**/k\"\n" + sp(7) + "x\";", "\n x"},
		// quote is the 9th character
		{"/* c */k\"\n" + sp(9) + "x\";", "\nx"},
		{"/* c */k\"\n" + sp(10) + "x\";", "\n x"},
		{"/* c */k\"\n" + sp(3) + "x\";", "\nx"},
		// single-quoted piece first: quote is the 7th character
		{"k 'a'+\"\n" + sp(7) + "x\";", "a\nx"},
		{"k 'a'+\"\n" + sp(8) + "x\";", "a\n x"},
		{"k 'abc' + \"\n" + sp(11) + "x\";", "abc\nx"},
		{"k 'abc' + \"\n" + sp(12) + "x\";", "abc\n x"},
		// tab inside the comment: /* =2, tab -> 8, */ -> 10, k 11, quote is column 12
		{"/*\t*/k\"\n\t" + sp(4) + "x\";", "\nx"},
		{"/*\t*/k\"\n\t" + sp(5) + "x\";", "\n x"},
		{"/*\t*/k\"\n" + sp(12) + "x\";", "\nx"},
		{"/*\t*/k\"\n" + sp(13) + "x\";", "\n x"},
		// tab inside single-quoted string: k=1 sp=2 '=3 tab->8 '=9 +=10 "=11
		{"k '\t'+\"\n" + sp(11) + "x\";", "\t\nx"},
		{"k '\t'+\"\n" + sp(12) + "x\";", "\t\n x"},
		// multi-line comment, column counted on the last line:  b */ k" -> quote col 8
		{"/* a\n b */ k\"\n" + sp(8) + "x\";", "\nx"},
		{"/* a\n b */ k\"\n" + sp(9) + "x\";", "\n x"},
		// multi-line single-quoted: line 2 is  b'+" -> quote col 5
		{"k 'a\n b'+\"\n" + sp(5) + "x\";", "a\n b\nx"},
		{"k 'a\n b'+\"\n" + sp(6) + "x\";", "a\n b\n x"},
		// non-ASCII in comment counts one column per rune: /*é*/k" -> quote col 7
		{"/*é*/k\"\n" + sp(7) + "x\";", "\nx"},
		{"/*é*/k\"\n" + sp(8) + "x\";", "\n x"},
		// unaffected baseline: k " -> quote col 3
		{"k \"\n" + sp(3) + "x\";", "\nx"},
		{"k \"\n" + sp(4) + "x\";", "\n x"},
		{"\tk \"\n\t" + sp(3) + "x\";", "\nx"},
	} {
		ss, err := Parse(tt.in, "f")
		if err != nil {
			t.Errorf("%q: %v", tt.in, err)
			continue
		}
		if len(ss) != 1 || ss[0].Keyword != "k" {
			t.Errorf("%q: got %v", tt.in, ss)
			continue
		}
		if got := ss[0].Argument; got != tt.want {
			t.Errorf("%q: got %q, want %q", tt.in, got, tt.want)
		}
	}
}
