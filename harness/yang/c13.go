package yang

import (
	"errors"
	"os"
	"path/filepath"
	"time"
)

// C13 - names bind to the right module revision; submodules merge into their owner.
// Units: modules.go add/FindModule/Process (import binding), yang.go Current/FullName,
// file.go findFile/findInDir, entry.go include merging.

var h13Dates = []string{"2019-01-01", "2020-06-01", "2021-12-31"}

type h13Mod struct {
	name string
	revs []int // indices into h13Dates, in written order
	cur  int   // index of the latest date, -1 if none
	text string
}

func h13Draw(i int) h13Mod {
	m := h13Mod{name: "m", cur: -1}
	if i > 0 {
		m.name = []string{"m", "n"}[symChoice(2)] // (the first module is named m: symmetry)
	}
	nrev := symChoice(3)
	body := ""
	for r := 0; r < nrev; r++ {
		d := symChoice(param("dates"))
		m.revs = append(m.revs, d)
		if d > m.cur {
			m.cur = d
		}
		body += "revision " + h13Dates[d] + "; "
	}
	id := string([]byte{'0' + byte(i)})
	m.text = `module ` + m.name + ` { namespace "urn:` + m.name + id + `"; prefix p; ` + body + `leaf id` + id + ` { type string; } }`
	return m
}

func h13Which(mod *Module) int {
	if mod == nil || len(mod.Leaf) == 0 {
		return -1
	}
	return int(mod.Leaf[0].Name[2] - '0')
}

// h13Load loads the module texts in the given order, then the importer; it returns the set
// and, per text, whether it was accepted.
func h13Load(mods []h13Mod, order []int, importer string) (*Modules, []bool) {
	ms := NewModules()
	readFile = func(string) ([]byte, error) { return nil, errors.New("no such file") } // nothing is fetched from disk
	scanDir = func(string, string, bool) string { return "" }
	ok := make([]bool, len(mods))
	for _, k := range order {
		ok[k] = ms.Parse(mods[k].text, "f"+string([]byte{'0' + byte(k)})+".yang") == nil
	}
	ms.Parse(importer, "imp.yang")
	return ms, ok
}

var h13Perms = [][]int{{0, 1, 2}, {0, 2, 1}, {1, 0, 2}, {1, 2, 0}, {2, 0, 1}, {2, 1, 0}}

// H13a: which module a bare name, a name@revision and an import denote, in every load order.
func H13a() {
	mods := []h13Mod{h13Draw(0), h13Draw(1), h13Draw(2)}
	impRev := symChoice(param("dates") + 1) // 0: no revision-date
	imp := `module i { namespace "urn:i"; prefix i; import m { prefix pm; `
	if impRev > 0 {
		imp += `revision-date ` + h13Dates[impRev-1] + `; `
	}
	imp += `} }`
	perm := h13Perms[symChoice(6)]
	note(mods[0].text + mods[1].text + mods[2].text + imp)

	// reference: duplicates = same name and same current revision
	dup := false
	mixed := false // a name carried both by a module without revision and by one with: known finding
	for a := 0; a < 3; a++ {
		for b := a + 1; b < 3; b++ {
			if mods[a].name == mods[b].name {
				if mods[a].cur == mods[b].cur {
					dup = true
				} else if mods[a].cur < 0 || mods[b].cur < 0 {
					mixed = true
				}
			}
		}
	}
	ms, ok := h13Load(mods, perm, imp)
	allOK := ok[0] && ok[1] && ok[2]
	checkKF(allOK == !dup, "loading the same name and revision twice is rejected, and nothing else is", mixed, "unrevisioned-and-revisioned-same-name")
	if !allOK || dup {
		reach("rejected")
		return
	}
	reach("loaded")
	errs := ms.Process()
	check(len(errs) == 0, "headers process")
	for _, name := range []string{"m", "n"} {
		latest := -1
		for k, m := range mods {
			if m.name == name && (latest < 0 || m.cur > mods[latest].cur) {
				latest = k
			}
		}
		got := h13Which(ms.Modules[name])
		checkKF(got == latest, "the bare name denotes the loaded module with the latest revision", mixed, "unrevisioned-and-revisioned-same-name")
		for k, m := range mods {
			if m.name == name && m.cur >= 0 {
				check(h13Which(ms.Modules[name+"@"+h13Dates[m.cur]]) == k, "name@revision denotes exactly that revision")
			}
		}
		if name == "m" {
			im := ms.Modules["i"].Import[0].Module
			want := latest
			if impRev > 0 {
				for k, m := range mods {
					if m.name == "m" && m.cur == impRev-1 {
						want = k // an import with a revision-date denotes exactly that revision when it is loaded
					}
				}
			}
			if latest >= 0 {
				checkKF(h13Which(im) == want, "an import denotes the latest revision, or exactly the revision-date's revision when loaded", mixed, "unrevisioned-and-revisioned-same-name")
			}
		}
	}
}

// ---- file chooser

type h13FI struct {
	name string
	dir  bool
}

func (f h13FI) Name() string       { return f.name }
func (f h13FI) Size() int64        { return 0 }
func (f h13FI) Mode() os.FileMode  { return 0 }
func (f h13FI) ModTime() time.Time { return time.Time{} }
func (f h13FI) IsDir() bool        { return f.dir }
func (f h13FI) Sys() interface{}   { return nil }

var h13Dirs map[string][]h13FI

// h13ReadDir stands in for ioutil.ReadDir (engine side, by redirect): a directory model.
func h13ReadDir(dir string) ([]os.FileInfo, error) {
	fis, ok := h13Dirs[dir]
	if !ok {
		return nil, errors.New("no such directory")
	}
	// sorted by name, as ioutil.ReadDir promises
	out := make([]os.FileInfo, 0, len(fis))
	for _, f := range fis {
		out = append(out, f)
	}
	for i := 1; i < len(out); i++ {
		for j := i; j > 0 && out[j].Name() < out[j-1].Name(); j-- {
			out[j], out[j-1] = out[j-1], out[j]
		}
	}
	return out, nil
}

// h13Stat stands in for os.Stat / os.Lstat (engine side, by redirect) over the same model.
func h13Stat(name string) (os.FileInfo, error) {
	if _, ok := h13Dirs[name]; ok {
		return h13FI{filepath.Base(name), true}, nil
	}
	for _, f := range h13Dirs[filepath.Dir(name)] {
		if f.name == filepath.Base(name) {
			return f, nil
		}
	}
	return nil, errors.New("stat: no such file or directory")
}

// H13b: the file fetched for a module that is not loaded: the first search-path directory
// holding a candidate; name.yang, else the name@date.yang with the latest date; never a file
// of a differently named module.
func H13b() {
	pool := []string{"ab.yang", "ab@2019-01-01.yang", "ab@2021-12-31.yang", "abc.yang", "abc@2022-01-01.yang", "ab-x@2023-01-01.yang",
		"ab@2020-1-01.yang", "ab@2024-01-01.yang.bak", "xab.yang", "xab@2025-01-01.yang", "ab@2018-05-05.yang"}
	root := "/vr"
	if !inEngine() {
		d, err := os.MkdirTemp("", "h13b")
		if err != nil {
			panic(err)
		}
		defer os.RemoveAll(d)
		root = d
	}
	dirs := []string{filepath.Join(root, "d1"), filepath.Join(root, "d2")}
	h13Dirs = map[string][]h13FI{}
	// expected choice per directory
	choice := []string{"", ""}
	for di, d := range dirs {
		// the directory holds up to `picks` files drawn from the pool (symbolic choices)
		var present []string
		picks := param("picks1")
		if di == 1 {
			picks = param("picks2")
		}
		for k := 0; k < picks; k++ {
			if c := symChoice(len(pool) + 1); c > 0 {
				dupl := false
				for _, p := range present {
					if p == pool[c-1] {
						dupl = true
					}
				}
				if !dupl {
					present = append(present, pool[c-1])
				}
			}
		}
		// a subdirectory named like a candidate must not be taken for a file
		if di == 0 && symChoice(2) == 1 {
			h13Dirs[d] = append(h13Dirs[d], h13FI{"ab@2030-01-01.yang", true})
			if !inEngine() {
				os.MkdirAll(filepath.Join(d, "ab@2030-01-01.yang"), 0o755)
			}
		}
		if _, ok := h13Dirs[d]; !ok {
			h13Dirs[d] = nil
		}
		for _, f := range present {
			h13Dirs[d] = append(h13Dirs[d], h13FI{f, false})
			if !inEngine() {
				os.MkdirAll(d, 0o755)
				os.WriteFile(filepath.Join(d, f), []byte("x"), 0o644)
			}
		}
		if !inEngine() {
			os.MkdirAll(d, 0o755)
		}
		// reference rule
		best := ""
		for _, f := range present {
			if f == "ab.yang" {
				best = f
			}
		}
		if best == "" {
			for _, f := range []string{"ab@2018-05-05.yang", "ab@2019-01-01.yang", "ab@2021-12-31.yang"} { // ascending dates
				for _, p := range present {
					if p == f {
						best = f
					}
				}
			}
		}
		choice[di] = best
		got := findInDir(d, "ab.yang", false)
		want := ""
		if best != "" {
			want = filepath.Join(d, best)
		}
		check(got == want, "in one directory: name.yang, else the name@YYYY-MM-DD.yang with the latest date, never another module's file")
	}
	// the search path: the first directory holding a candidate
	ms := NewModules()
	ms.Path = []string{dirs[0], dirs[1]}
	opened := ""
	readFile = func(n string) ([]byte, error) {
		if filepath.Dir(n) == dirs[0] || filepath.Dir(n) == dirs[1] {
			for _, f := range h13Dirs[filepath.Dir(n)] {
				if f.name == filepath.Base(n) && !f.dir {
					opened = n
					return []byte("module ab { namespace \"urn:ab\"; prefix ab; }"), nil
				}
			}
		}
		return nil, errors.New("no such file")
	}
	scanDir = func(dir, name string, recurse bool) string {
		if dir == "." {
			return "" // the current directory is not part of the model
		}
		return findInDir(dir, name, recurse)
	}
	name, _, err := ms.findFile("ab")
	want := ""
	for di := range dirs {
		if want == "" && choice[di] != "" {
			want = filepath.Join(dirs[di], choice[di])
		}
	}
	if want == "" {
		reach("not-found")
		check(err != nil, "no candidate anywhere: reported")
	} else {
		reach("found")
		check(err == nil && name == want && opened == want, "fetched from the first search-path directory holding a candidate")
	}
}

// ---- include == inline

// H13c: every partition of a module's top-level definitions into {module, submodule s1,
// submodule s2 included by s1} yields the same tree as the unsplit module.
func H13c() {
	defs := []string{
		`typedef t { type int8; } `,
		`grouping g { leaf gl { type t; } } `,
		`identity derived { base base-id; } `,
		`container c { leaf l { type t; } uses g; } `,
		`augment /x:c { leaf al { type t; } } `,
		`identity base-id; `,
		`leaf r { type identityref { base base-id; } } `,
		`container d { uses g; } `,
	}
	var part [3]string
	nested := symBool() // s2 included by s1, or both included by the module
	// the first `free` definitions are placed freely, the others stay in the module
	free := param("free")
	flatBody := ""
	for i, d := range defs {
		flatBody += d
		if i < free {
			part[symChoice(3)] += d
		} else {
			part[0] += d
		}
	}
	flat := `module x { namespace "urn:x"; prefix x; ` + flatBody + `}`
	inc := `include s1; include s2; `
	s1inc := ``
	if nested {
		inc = `include s1; `
		s1inc = `include s2; `
	}
	main := `module x { namespace "urn:x"; prefix x; ` + inc + part[0] + `}`
	s1 := `submodule s1 { belongs-to x { prefix x; } ` + s1inc + part[1] + `}`
	s2 := `submodule s2 { belongs-to x { prefix x; } ` + part[2] + `}`
	// an importer that refers to the module's typedef, grouping and identities through its prefix
	u := `module u { namespace "urn:u"; prefix u; import x { prefix xx; } leaf ul { type xx:t; } container uc { uses xx:g; } identity uid { base xx:base-id; } leaf ur { type identityref { base xx:derived; } } }`
	note(main + s1 + s2)
	msF, le := hLoad(flat, u)
	check(len(le) == 0, "flat module parses")
	ef := msF.Process()
	check(len(ef) == 0, "flat module processes")
	msS, le2 := hLoad(main, s1, s2, u)
	check(len(le2) == 0, "split module parses")
	es := msS.Process()
	reach("compared")
	// a submodule sees only what it includes itself plus (YANG 1.1) its module's definitions;
	// with nested includes the module sees s2 only through s1
	check(len(es) == 0, "an included submodule contributes its definitions exactly as if they were written in the module (no error)")
	if len(es) > 0 {
		return
	}
	hWF(msS)
	check(hDumpTrees(msS) == hDumpTrees(msF), "an included submodule contributes its data nodes, typedefs, groupings and identities exactly as if they were written in the module (seen from the module and from an importer)")
}

// H13inc: two revisions of a submodule and a module whose include names none, the older or the
// newer one, in every load order: the include denotes the latest revision, or exactly the named
// one, and the module's tree holds that revision's nodes.
func H13inc() {
	s19 := `submodule s { belongs-to m { prefix m; } revision 2019-01-01; leaf old { type string; } leaf both { type int8; } }`
	s20 := `submodule s { belongs-to m { prefix m; } revision 2020-06-15; leaf new { type string; } leaf both { type int16; } }`
	pin := symChoice(3)
	inc := `include s;`
	switch pin {
	case 1:
		inc = `include s { revision-date 2019-01-01; }`
	case 2:
		inc = `include s { revision-date 2020-06-15; }`
	}
	m := `module m { namespace "urn:m"; prefix m; ` + inc + ` leaf own { type string; } }`
	texts := []string{s19, s20, m}
	orders := [][]int{{0, 1, 2}, {1, 0, 2}, {2, 0, 1}, {2, 1, 0}, {0, 2, 1}, {1, 2, 0}}
	o := orders[symChoice(len(orders))]
	hNoFiles()
	ms := NewModules()
	for _, k := range o {
		check(ms.Parse(texts[k], "f"+string([]byte{'0' + byte(k)})+".yang") == nil, "the texts load")
	}
	errs := ms.Process()
	check(len(errs) == 0, "the set processes")
	if len(errs) > 0 {
		return
	}
	reach("loaded")
	want := ms.SubModules["s@2020-06-15"]
	if pin == 1 {
		want = ms.SubModules["s@2019-01-01"]
	}
	check(want != nil && ms.SubModules["s"] == ms.SubModules["s@2020-06-15"], "the bare submodule name denotes the latest revision")
	mod := ms.Modules["m"]
	check(len(mod.Include) == 1 && mod.Include[0].Module == want, "an include denotes the latest revision, or exactly the revision its revision-date names")
	em := ToEntry(mod)
	hWF(ms)
	if pin == 1 {
		check(em.Dir["old"] != nil && em.Dir["new"] == nil && em.Dir["both"] != nil && em.Dir["both"].Type.Kind == Yint8, "the module holds the nodes of the included revision")
	} else {
		check(em.Dir["new"] != nil && em.Dir["old"] == nil && em.Dir["both"] != nil && em.Dir["both"].Type.Kind == Yint16, "the module holds the nodes of the included revision")
	}
	check(em.Dir["own"] != nil && len(em.Dir) == 3, "nothing else")
}

// H13idrev: two revisions of a module, each including its own revision of a submodule that holds
// the module's identities, and an importer without revision-date: what the importer sees is what
// it sees when the identities are written in the module bodies (include == inline), i.e. the
// latest revision's. Load order symbolic.
func H13idrev() {
	m20 := `module m { namespace "urn:m"; prefix m; revision 2020-01-01; include s { revision-date 2020-01-01; } leaf a { type string; } }`
	s20 := `submodule s { belongs-to m { prefix m; } revision 2020-01-01; identity kind; identity old { base kind; } }`
	m21 := `module m { namespace "urn:m"; prefix m; revision 2021-01-01; include s { revision-date 2021-01-01; } leaf a { type string; } }`
	s21 := `submodule s { belongs-to m { prefix m; } revision 2021-01-01; identity kind; identity extra { base kind; } }`
	u := `module u { namespace "urn:u"; prefix u; import m { prefix m; } identity mine { base m:kind; } leaf l { type identityref { base m:kind; } } }`
	f20 := `module m { namespace "urn:m"; prefix m; revision 2020-01-01; identity kind; identity old { base kind; } leaf a { type string; } }`
	f21 := `module m { namespace "urn:m"; prefix m; revision 2021-01-01; identity kind; identity extra { base kind; } leaf a { type string; } }`
	split := []string{m20, s20, m21, s21, u}
	orders := [][]int{{0, 1, 2, 3, 4}, {4, 3, 2, 1, 0}, {2, 3, 0, 1, 4}, {1, 3, 4, 0, 2}}
	o := orders[symChoice(len(orders))]
	hNoFiles()
	msS := NewModules()
	for _, k := range o {
		check(msS.Parse(split[k], "f"+string([]byte{'0' + byte(k)})+".yang") == nil, "the split texts load")
	}
	msF, lf := hLoad(f20, f21, u)
	check(len(lf) == 0, "the flat texts load")
	es, ef := msS.Process(), msF.Process()
	check(len(es) == 0 && len(ef) == 0, "both sets process")
	if len(es) > 0 || len(ef) > 0 {
		return
	}
	reach("compared")
	us, uf := ToEntry(msS.Modules["u"]), ToEntry(msF.Modules["u"])
	check(hDumpTree(us.Dir["l"], "") == hDumpTree(uf.Dir["l"], ""), "identities contributed by an included submodule are seen by an importer exactly as if they were written in the module (the latest revision's)")
	ls := us.Dir["l"].Type.IdentityBase
	check(ls != nil && RootNode(ls) == msS.SubModules["s@2021-01-01"], "an import without revision-date denotes the latest revision, also for the identities of its submodule")
	n := 0
	for _, v := range ls.Values {
		if v.Name == "extra" || v.Name == "mine" {
			n++
		}
	}
	// (whether the older revision's own derivations belong in this list is a question of how two
	// loaded revisions of one module relate - the library files identities by module name - and is
	// the same for the split and the unsplit modules; not asked here)
	check(n == 2, "the identity lists the derivations of the revision it belongs to and of its importers")
}
