package yang

// C11 - each identity lists exactly its transitive derivations, once, in fixed order.
// Units: identity.go resolveIdentities/findIdentityBase/addChildren, types.go identityref
// resolution, through Modules.Parse + Process. Oracle: transitive closure (Warshall) of the
// derivation graph computed from the declared structure, with symbolic names.

type h11Base struct {
	mod  int // module the base is looked up in: 1, 2, 0 = undefined prefix
	name byte
}

type h11Id struct {
	home  int // 0 = module m1, 1 = submodule s1 of m1, 2 = module m2
	owner int // 1 or 2
	name  byte
	bases []h11Base
	idx   int // position among the identities of its home
}

// h11BaseText spells a base reference from the given home and returns where it must resolve.
func h11BaseText(home int, n int) (string, h11Base) {
	nb := symByte()
	assume(nb >= 'a')
	assume(nb <= 'a'+byte(n)) // one letter more than there are identities: undefined names occur
	name := string([]byte{nb})
	owner := 1
	if home == 2 {
		owner = 2
	}
	sp := symChoice(param("spell"))
	if param("spell") == 2 && sp == 1 {
		sp = 2
	}
	switch sp {
	case 0:
		return name, h11Base{owner, nb}
	case 1: // own prefix
		if home == 2 {
			return "p2:" + name, h11Base{2, nb}
		}
		return "p1:" + name, h11Base{1, nb}
	case 2: // the import's prefix (m2 imports m1 as q1; the submodule s1 has an import of its own: m3 as q3)
		if home == 2 {
			return "q1:" + name, h11Base{1, nb}
		}
		if home == 1 {
			return "q3:" + name, h11Base{3, nb}
		}
		return "zz:" + name, h11Base{0, nb}
	}
	return "zz:" + name, h11Base{0, nb}
}

func H11() {
	n := param("n")
	maxb := param("bases")
	ids := make([]*h11Id, n)
	body := [3]string{}
	count := [3]int{}
	places := [][]int{{0, 0, 0, 0}, {0, 1, 0, 2}, {0, 1, 2, 2}, {0, 2, 2, 1}, {2, 0, 1, 0}, {1, 2, 0, 2}}
	place := -1
	if param("place") == 1 {
		place = symChoice(len(places))
	}
	for i := 0; i < n; i++ {
		nb := symByte()
		assume(nb >= 'a')
		assume(nb <= 'a'+byte(n)-1)
		id := &h11Id{name: nb}
		if place >= 0 {
			id.home = places[place][i]
		} else {
			id.home = symChoice(3)
		}
		id.owner = 1
		if id.home == 2 {
			id.owner = 2
		}
		for _, o := range ids[:i] {
			if o.owner == id.owner {
				assume(o.name != nb) // identity names are unique within a module (and its submodules)
			}
		}
		txt := "identity " + string([]byte{nb})
		nbases := symChoice(maxb + 1)
		if nbases > 0 {
			txt += " {"
			for b := 0; b < nbases; b++ {
				t, bs := h11BaseText(id.home, n)
				txt += " base " + t + ";"
				id.bases = append(id.bases, bs)
			}
			txt += " }"
		} else {
			txt += ";"
		}
		id.idx = count[id.home]
		count[id.home]++
		body[id.home] += " " + txt
		ids[i] = id
	}
	// an identityref leaf in m2
	rt, rb := h11BaseText(2, n)
	m1 := `module m1 { yang-version 1.1; namespace "urn:m1"; prefix p1; include s1;` + body[0] + ` }`
	s1 := `submodule s1 { yang-version 1.1; belongs-to m1 { prefix p1; } import m3 { prefix q3; }` + body[1] + ` }`
	m3 := `module m3 { yang-version 1.1; namespace "urn:m3"; prefix q1; identity a; }` // its own prefix equals m2's name for m1
	m2 := `module m2 { yang-version 1.1; namespace "urn:m2"; prefix p2; import m1 { prefix q1; }` + body[2] +
		` typedef t { type identityref { base ` + rt + `; } } leaf r { type t; } }`
	note(m1 + s1 + m2)
	ms, lerrs := hLoad(m1, s1, m2, m3)
	check(len(lerrs) == 0, "the modules parse")
	if len(lerrs) != 0 {
		return
	}
	errs := ms.Process()

	// oracle: derivation edges i -> k (i has a base that names k), undefined bases, closure
	undefined := false
	edge := make([][]bool, n)
	resolves := func(b h11Base, k *h11Id) bool { return symAnd(b.mod == k.owner, b.name == k.name) }
	ext := &h11Id{home: 3, owner: 3, name: 'a'} // module m3's identity: a base target outside the drawn set
	extEdge := make([]bool, n)                  // identity i derives from m3:a
	for i, id := range ids {
		edge[i] = make([]bool, n)
		for _, b := range id.bases {
			found := false
			for k, t := range ids {
				r := resolves(b, t)
				edge[i][k] = symOr(edge[i][k], r)
				found = symOr(found, r)
			}
			re := resolves(b, ext)
			extEdge[i] = symOr(extEdge[i], re)
			found = symOr(found, re)
			undefined = symOr(undefined, symNot(found))
		}
	}
	rfound := false
	for _, t := range ids {
		rfound = symOr(rfound, resolves(rb, t))
	}
	undefined = symOr(undefined, symNot(rfound))
	reachable := make([][]bool, n)
	for i := range reachable {
		reachable[i] = append([]bool{}, edge[i]...)
	}
	for k := 0; k < n; k++ {
		for i := 0; i < n; i++ {
			for j := 0; j < n; j++ {
				reachable[i][j] = symOr(reachable[i][j], symAnd(reachable[i][k], reachable[k][j]))
			}
		}
	}
	cyclic := false
	for i := 0; i < n; i++ {
		cyclic = symOr(cyclic, reachable[i][i])
	}
	if len(errs) > 0 {
		reach("rejected")
		check(symOr(undefined, cyclic), "a derivation graph with defined bases and no cycle is accepted")
		return
	}
	reach("accepted")
	check(symNot(undefined), "an undefined base is reported as an error")
	check(symNot(cyclic), "a derivation cycle is reported as an error")
	hWF(ms)
	obj := make([]*Identity, n)
	for i, id := range ids {
		switch id.home {
		case 0:
			obj[i] = ms.Modules["m1"].Identity[id.idx]
		case 1:
			obj[i] = ms.SubModules["s1"].Identity[id.idx]
		case 2:
			obj[i] = ms.Modules["m2"].Identity[id.idx]
		}
		check(obj[i].Name == string([]byte{id.name}), "harness bookkeeping: identity object found")
	}
	for k := 0; k < n; k++ {
		vals := obj[k].Values
		for i := 0; i < n; i++ {
			cnt := 0
			for _, v := range vals {
				if v == obj[i] {
					cnt++
				}
			}
			check(cnt <= 1, "each derived identity is listed once")
			check((cnt == 1) == reachable[i][k], "an identity lists exactly the identities that reach it through base statements")
		}
		check(len(vals) <= n, "no foreign object in the list")
	}
	// module m3's identity lists exactly the identities that reach it
	extObj := ms.Modules["m3"].Identity[0]
	for i := 0; i < n; i++ {
		reaches := extEdge[i]
		for k := 0; k < n; k++ {
			reaches = symOr(reaches, symAnd(reachable[i][k], extEdge[k]))
		}
		cnt := 0
		for _, v := range extObj.Values {
			if v == obj[i] {
				cnt++
			}
		}
		check((cnt == 1) == reaches, "a base reached through a submodule's own import lists exactly its derivations")
	}
	// the identityref leaf sees the identity its base names
	leaf := ToEntry(ms.Modules["m2"]).Dir["r"]
	check(leaf != nil && leaf.Type != nil, "identityref leaf resolved")
	if leaf != nil && leaf.Type != nil {
		for k, t := range ids {
			check(symOr(symNot(resolves(rb, t)), leaf.Type.IdentityBase == obj[k]), "an identityref points at the identity its base statement names")
		}
	}
}

// H11dia: a diamond (an identity with two bases whose bases share a base) with a further level
// below it, spread over three modules, under every load order and one perturbed range event over
// the library's identity and module maps: every list holds each derived identity exactly once.
// A union of identityrefs whose bases are equally named identities of three modules keeps all
// three members, each pointing at its own identity.
func H11dia() {
	// mutual imports: r imports b back and derives an identity from b's lowest one
	mutual := symBool()
	back := ""
	if mutual {
		back = `import b { prefix b; } identity BACK { base b:LEAF; } `
	}
	r := `module r { yang-version 1.1; namespace "urn:r"; prefix r; ` + back + `identity ROOT; identity KIND; identity KR { base KIND; } }`
	a := `module a { yang-version 1.1; namespace "urn:a"; prefix a; import r { prefix r; } identity LEFT { base r:ROOT; } identity RIGHT { base r:ROOT; } identity KIND; identity KA { base KIND; } identity KA2 { base KIND; } }`
	second := []string{"a:RIGHT", "r:ROOT"}[symChoice(2)]
	b := `module b { yang-version 1.1; namespace "urn:b"; prefix b; import r { prefix r; } import a { prefix a; } identity BOTH { base a:LEFT; base ` + second + `; } identity LEAF { base BOTH; } identity KIND; ` +
		`leaf u { type union { type identityref { base a:KIND; } type identityref { base KIND; } type identityref { base r:KIND; } } } leaf d { type identityref { base r:ROOT; } } }`
	// a fourth module that knows r under the prefix by which b knows a
	e := `module e { yang-version 1.1; namespace "urn:e"; prefix e; import r { prefix a; } leaf le { type identityref { base a:KIND; } } leaf le2 { type identityref { base a:ROOT; } } }`
	texts := []string{r, a, b, e}
	orders := [][]int{{0, 1, 2, 3}, {3, 2, 1, 0}, {1, 2, 0, 3}, {2, 3, 0, 1}}
	o := orders[symChoice(len(orders))]
	hNoFiles()
	ms := NewModules()
	for _, k := range o {
		check(ms.Parse(texts[k], "f"+string([]byte{'0' + byte(k)})+".yang") == nil, "the modules load")
	}
	errs := ms.Process()
	check(len(errs) == 0, "the modules process")
	if len(errs) > 0 {
		return
	}
	reach("accepted")
	id := func(mod, name string) *Identity {
		for _, i := range ms.Modules[mod].Identity {
			if i.Name == name {
				return i
			}
		}
		return nil
	}
	expect := func(i *Identity, names ...string) {
		check(i != nil, "identity exists")
		if i == nil {
			return
		}
		check(len(i.Values) == len(names), "each identity lists exactly its transitive derivations, each once")
		for _, n := range names {
			c := 0
			for _, v := range i.Values {
				if v.Name == n {
					c++
				}
			}
			check(c == 1, "each identity lists exactly its transitive derivations, each once")
		}
		for k := 1; k < len(i.Values); k++ {
			check(i.Values[k-1].Name <= i.Values[k].Name, "the list is in a fixed order (by name)")
		}
	}
	with := func(names ...string) []string {
		if mutual {
			return append(names, "BACK")
		}
		return names
	}
	expect(id("r", "ROOT"), with("BOTH", "LEAF", "LEFT", "RIGHT")...)
	if second == "a:RIGHT" {
		expect(id("a", "RIGHT"), with("BOTH", "LEAF")...)
	} else {
		expect(id("a", "RIGHT"))
	}
	expect(id("a", "LEFT"), with("BOTH", "LEAF")...)
	expect(id("b", "BOTH"), with("LEAF")...)
	expect(id("b", "LEAF"), with()...)
	if mutual {
		expect(id("r", "BACK"))
	}
	expect(id("a", "KIND"), "KA", "KA2")
	expect(id("b", "KIND"))
	expect(id("r", "KIND"), "KR")
	eb := ToEntry(ms.Modules["b"])
	u := eb.Dir["u"]
	check(u != nil && u.Type != nil && len(u.Type.Type) == 3, "a union keeps its identityref members whose bases are equally named identities of different modules")
	if u != nil && u.Type != nil && len(u.Type.Type) == 3 {
		check(u.Type.Type[0].IdentityBase == id("a", "KIND") && u.Type.Type[1].IdentityBase == id("b", "KIND") && u.Type.Type[2].IdentityBase == id("r", "KIND"),
			"every identityref points at the identity its base statement names")
	}
	d := eb.Dir["d"]
	check(d != nil && d.Type != nil && d.Type.IdentityBase == id("r", "ROOT"), "an identityref sees the list of the identity it names")
	ee := ToEntry(ms.Modules["e"])
	check(ee.Dir["le"].Type.IdentityBase == id("r", "KIND") && ee.Dir["le2"].Type.IdentityBase == id("r", "ROOT"), "a prefix in a base statement is read with the imports of the module that writes it, whatever another module calls by that prefix")
}

// H11late: identities that arrive after a processing run. Module r holds ROOT <- MID; module c,
// loaded before or after a first Process, derives LEAF from ROOT or from MID (symbolic), and a
// third module d derives DEEP from c's LEAF after yet another run or not: every list is the
// closure over all loaded modules after the last run.
func H11late() {
	r := `module r { namespace "urn:r"; prefix r; identity ROOT; identity MID { base ROOT; } leaf l { type identityref { base ROOT; } } }`
	from := []string{"r:ROOT", "r:MID"}[symChoice(2)]
	c := `module c { namespace "urn:c"; prefix c; import r { prefix r; } identity LEAF { base ` + from + `; } }`
	d := `module d { namespace "urn:d"; prefix d; import c { prefix c; } identity DEEP { base c:LEAF; } }`
	hNoFiles()
	ms := NewModules()
	check(ms.Parse(r, "r.yang") == nil, "r loads")
	if symBool() {
		check(len(ms.Process()) == 0, "r processes")
	}
	check(ms.Parse(c, "c.yang") == nil, "c loads")
	if symBool() {
		check(len(ms.Process()) == 0, "r, c process")
	}
	withD := symBool()
	if withD {
		check(ms.Parse(d, "d.yang") == nil, "d loads")
	}
	check(len(ms.Process()) == 0, "the set processes")
	reach("accepted")
	id := func(mod, name string) *Identity {
		for _, i := range ms.Modules[mod].Identity {
			if i.Name == name {
				return i
			}
		}
		return nil
	}
	has := func(i *Identity, names ...string) {
		check(i != nil && len(i.Values) == len(names), "each identity lists exactly the identities of all loaded modules that reach it, whenever they were loaded")
		if i == nil {
			return
		}
		for _, n := range names {
			c := 0
			for _, v := range i.Values {
				if v.Name == n {
					c++
				}
			}
			check(c == 1, "each identity lists exactly the identities of all loaded modules that reach it, each once")
		}
	}
	deep := []string{}
	if withD {
		deep = []string{"DEEP"}
	}
	has(id("r", "ROOT"), append([]string{"MID", "LEAF"}, deep...)...)
	if from == "r:MID" {
		has(id("r", "MID"), append([]string{"LEAF"}, deep...)...)
	} else {
		has(id("r", "MID"))
	}
	has(id("c", "LEAF"), deep...)
	l := ToEntry(ms.Modules["r"]).Dir["l"]
	check(l.Type.IdentityBase == id("r", "ROOT"), "the identityref sees the same list")
}
