package yang

// C07 - augments are applied exactly once, order-independently, or reported.
// Units: entry.go Augment/merge/Find, modules.go Process (augment rounds), through the whole
// pipeline. Universe: the composition universe (augments from two modules, chained onto nodes
// created by other augments, by uses expansion, in a submodule, inside choice/case, rpc
// input/output - written or not - and notification) and a collision schema with symbolic names.

// h07Perm returns the texts in one of a few load orders.
func h07Perm(texts []string, k int) []string {
	n := len(texts)
	out := make([]string, 0, n)
	switch k {
	case 0:
		return texts
	case 1:
		for i := n - 1; i >= 0; i-- {
			out = append(out, texts[i])
		}
	case 2:
		for i := 0; i < n; i++ {
			out = append(out, texts[(i+2)%n])
		}
	default:
		for i := 0; i < n; i++ {
			out = append(out, texts[(i*3+1)%n]) // a permutation when n is not a multiple of 3
		}
	}
	return out
}

// H07: every augment of the composition universe ends up applied exactly once, attributed to
// the augmenting module, whatever the load order (second run on a fresh set, other order).
func H07() {
	hcSlim = param("slim") == 1
	hcNoCfg = true
	sc := hcGenerate(param("n"))
	hasAug := false
	for _, lv := range sc.levels {
		if lv.op == opAugment || lv.op == opAugment2 || lv.op == opAugmentSub {
			hasAug = true
		}
	}
	assume(hasAug)
	note(sc.texts[0] + sc.texts[1] + sc.texts[2] + sc.texts[3] + sc.texts[4])
	ms, lerrs := hLoad(sc.texts...)
	check(len(lerrs) == 0, "the generated modules parse")
	if len(lerrs) > 0 {
		return
	}
	errs := ms.Process()
	check(len(errs) == 0, "every augment whose target exists is applied without error")
	if len(errs) > 0 {
		return
	}
	reach("processed")
	hWF(ms) // includes: no augment left unapplied, parents, names
	for k, lv := range sc.levels {
		e := hcWalk(ms, lv.steps)
		check(e != nil, "the target gains each node the augment defines")
		if e == nil {
			continue
		}
		idx := string([]byte{'1' + byte(k)})
		x := e.Dir["l"+idx]
		check(x != nil, "descendants defined by the augment are present")
		ns := e.Namespace()
		check(ns != nil && ns.Name == "urn:"+lv.ns, "augmented nodes and their descendants are attributed to the augmenting module")
		if x != nil {
			xn := x.Namespace()
			check(xn != nil && xn.Name == "urn:"+lv.ns, "augmented nodes and their descendants are attributed to the augmenting module")
		}
	}
	if sc.top == topActGrpInput || sc.top == topActGrpOutput || sc.top == topActGrpImplicit {
		// the second use of the grouping is a copy of its own: what was augmented into the first
		// copy's action must not show under the second
		other := hcWalk(ms, []string{"root2", "act"})
		check(other != nil && other.RPC != nil, "second copy of the action exists")
		if other != nil && other.RPC != nil {
			for _, lv := range sc.levels {
				if lv.op == opAugment || lv.op == opAugment2 || lv.op == opAugmentSub {
					for _, io := range []*Entry{other.RPC.Input, other.RPC.Output} {
						if io != nil {
							check(io.Dir[lv.name] == nil, "an augment is applied exactly once: not to the other copy of a grouping's action")
						}
					}
					break
				}
			}
		}
	}
	d1 := hDump(ms)
	// the same sources in another load order, on a fresh set
	ms2, lerrs2 := hLoad(h07Perm(sc.texts, 1+symChoice(3))...)
	check(len(lerrs2) == 0, "the modules parse in another order")
	errs2 := ms2.Process()
	check(len(errs2) == 0, "the outcome does not depend on the load order (errors)")
	check(hDump(ms2) == d1, "the outcome does not depend on the load order (trees)")
}

func h07Name(alphabet string) string {
	b := symByte()
	in := false
	for i := 0; i < len(alphabet); i++ {
		in = symOr(in, b == alphabet[i])
	}
	assume(in)
	return string([]byte{b})
}

// H07err: targets that do not exist, cannot have children, or already have a child of the same
// name. Two augmenting modules add a leaf each, with symbolic names, to a symbolic target.
func H07err() {
	n1, n2 := h07Name("xyzw"), h07Name("xyzw")
	// c: container with x and y; l: a leaf; q: missing; d: anydata; r: an rpc (its input and output
	// can be augmented, the rpc itself cannot); n: a notification
	t1, t2 := h07Name("clqdrn"), h07Name("clq")
	order := symChoice(2)
	base := `module m { yang-version 1.1; namespace "urn:m"; prefix m; grouping g { leaf w { type boolean; } } container c { leaf x { type string; } leaf y { type string; } } leaf l { type string; } anydata d; rpc r; notification n { leaf x { type string; } leaf y { type string; } } }`
	// the body of an augment: a leaf of its own, or a use of the grouping g of the target's module (leaf w)
	body1, body2 := `leaf `+n1+` { type string; }`, `leaf `+n2+` { type int8; }`
	if symBool() {
		body1, n1 = `uses mm:g;`, "w"
	}
	if symBool() {
		body2, n2 = `uses mm:g;`, "w"
	}
	a := `module a { yang-version 1.1; namespace "urn:a"; prefix a; import m { prefix mm; } augment /mm:` + t1 + ` { ` + body1 + ` } }`
	b := `module b { yang-version 1.1; namespace "urn:b"; prefix b; import m { prefix mm; } augment /mm:` + t2 + ` { ` + body2 + ` } }`
	note(a + b)
	texts := []string{base, a, b}
	if order == 1 {
		texts = []string{b, a, base}
	}
	ms, lerrs := hLoad(texts...)
	check(len(lerrs) == 0, "the modules parse")
	if len(lerrs) > 0 {
		return
	}
	errs := ms.Process()
	holder1 := symOr(t1 == "c", t1 == "n") // targets that can have children (both hold x and y)
	bad1 := symOr(symNot(holder1), symOr(n1 == "x", n1 == "y"))
	bad2 := symOr(t2 != "c", symOr(n2 == "x", n2 == "y"))
	clash := symAnd(symAnd(t1 == "c", t2 == "c"), n1 == n2)
	bad := symOr(symOr(bad1, bad2), clash)
	if len(errs) > 0 {
		reach("rejected")
		check(bad, "augments with existing targets and fresh names are applied without error")
		return
	}
	reach("accepted")
	check(symNot(bad), "an augment whose target does not exist, cannot have children, or already has a child of that name is reported")
	hWF(ms)
	c := ToEntry(ms.Modules["m"]).Dir["c"]
	c1 := c
	if t1 == "n" {
		c1 = ToEntry(ms.Modules["m"]).Dir["n"]
	}
	e1, e2 := c1.Dir[n1], c.Dir[n2]
	check(e1 != nil && e2 != nil, "both augments applied")
	if e1 != nil && e2 != nil {
		check(e1.Namespace().Name == "urn:a" && (e1.Type.Kind == Ystring || e1.Type.Kind == Ybool), "first augment's leaf comes from module a")
		check(e2.Namespace().Name == "urn:b" && (e2.Type.Kind == Yint8 || e2.Type.Kind == Ybool), "second augment's leaf comes from module b")
	}
	check((c1 == c && len(c.Dir) == 4) || (c1 != c && len(c.Dir) == 3 && len(c1.Dir) == 3), "nothing else was added")
}

// H07chain: a chain of d augments, each onto the node the previous one adds, all declared in
// one module (or alternating between two modules) in a symbolically chosen declaration order
// (top-down, bottom-up, inside-out), with bystander modules loaded: every link must be applied.
func H07chain() {
	d := param("d")
	two := symBool()
	order := symChoice(3)
	augs := make([]string, d)
	path := "/mm:c"
	for i := 0; i < d; i++ {
		name := "n" + string([]byte{'1' + byte(i)})
		mod := "a"
		if two && i%2 == 1 {
			mod = "b"
		}
		_ = mod
		augs[i] = "augment " + path + " { container " + name + " { leaf l { type string; } } } "
		pre := "a"
		if two && i%2 == 1 {
			pre = "b"
		}
		path += "/" + pre + ":" + name
	}
	idx := make([]int, d)
	for i := range idx {
		switch order {
		case 0:
			idx[i] = i
		case 1:
			idx[i] = d - 1 - i
		default:
			idx[i] = (i*2 + 1) % d // for odd d a permutation; for even d fall back to bottom-up
			if d%2 == 0 {
				idx[i] = d - 1 - i
			}
		}
	}
	aBody, bBody := "", ""
	for _, k := range idx {
		if two && k%2 == 1 {
			bBody += augs[k]
		} else {
			aBody += augs[k]
		}
	}
	// spell the prefixes from each author's point of view
	fix := func(body, self string) string {
		out := ""
		for i := 0; i < len(body); i++ {
			if i+2 <= len(body) && body[i] == '/' && (body[i+1] == 'a' || body[i+1] == 'b') && i+2 < len(body) && body[i+2] == ':' {
				if string([]byte{body[i+1]}) == self {
					out += "/" + self + ":"
				} else {
					out += "/o:"
				}
				i += 2
				continue
			}
			out += string([]byte{body[i]})
		}
		return out
	}
	m := `module m { namespace "urn:m"; prefix m; container c { leaf base { type string; } } }`
	a := `module a { namespace "urn:a"; prefix a; import m { prefix mm; } import b { prefix o; } ` + fix(aBody, "a") + `}`
	b := `module b { namespace "urn:b"; prefix b; import m { prefix mm; } import a { prefix o; } ` + fix(bBody, "b") + `}`
	by1 := `module by1 { namespace "urn:by1"; prefix by1; leaf z { type string; } }`
	by2 := `module by2 { namespace "urn:by2"; prefix by2; import m { prefix mm; } leaf z { type string; } }`
	note(a + b)
	texts := h07Perm([]string{m, a, b, by1, by2}, symChoice(3))
	ms, lerrs := hLoad(texts...)
	check(len(lerrs) == 0, "modules parse")
	errs := ms.Process()
	check(len(errs) == 0, "every augment whose target exists (after the other augments are applied) is applied, in any declaration and load order")
	if len(errs) > 0 {
		return
	}
	reach("processed")
	hWF(ms)
	e := ToEntry(ms.Modules["m"]).Dir["c"]
	for i := 0; i < d; i++ {
		name := "n" + string([]byte{'1' + byte(i)})
		check(e != nil && e.Dir[name] != nil, "every link of the chain is present")
		if e == nil || e.Dir[name] == nil {
			return
		}
		e = e.Dir[name]
		want := "urn:a"
		if two && i%2 == 1 {
			want = "urn:b"
		}
		check(e.Namespace().Name == want, "each link belongs to the module that wrote it")
	}
}
