package yang

import "strconv"

// C15 - numbers print, parse, convert and compare as exact decimal arithmetic does.
// Units: types_builtin.go Number.{String,Less,Equal,Int,Trunc,frac}, ParseInt, ParseDecimal,
// FromInt, FromUint. Oracle: exact integers (mInt). See DESIGN.md section 3 (C15).

// h15Number returns an arbitrary number of the property's domain with the given
// fraction-digits: 64-bit magnitude with sign for integers, signed 64-bit mantissa for decimal64.
func h15Number(fd int) Number {
	n := Number{Value: symU64(), Negative: symBool(), FractionDigits: uint8(fd)}
	if fd > 0 {
		assume(symOr(n.Value <= 1<<63-1, symAnd(n.Negative, n.Value == 1<<63)))
	}
	return n
}

func h15Signed(n Number) mInt {
	return mIte(n.Negative, mNeg(mU(n.Value)), mU(n.Value))
}

// H15a: Less/Equal agree with exact rational arithmetic, for one pair of fraction-digits
// (fd1, fd2) chosen symbolically from [lo,hi]x[lo,hi] and then concretised.
func H15a() {
	lo, hi := param("fdlo"), param("fdhi")
	fdn := symRange(lo, hi)
	fdm := symRange(lo, hi)
	n, m := h15Number(fdn), h15Number(fdm)
	// n < m  <=>  sn*10^fdm < sm*10^fdn
	a := mMulPow10(h15Signed(n), fdm)
	b := mMulPow10(h15Signed(m), fdn)
	reach("compared")
	check(n.Less(m) == mLess(a, b), "Less agrees with exact rational order")
	check(n.Equal(m) == mEq(a, b), "Equal agrees with exact rational equality")
}

// H15b: Int() returns the exact value or an error, never a wrapped one.
func H15b() {
	n := Number{Value: symU64(), Negative: symBool()}
	i, err := n.Int()
	if err == nil {
		reach("int-ok")
		check(mEq(mI(i), h15Signed(n)), "Int() without error is exact")
	} else {
		reach("int-err")
		// an error is justified only when the value does not fit int64
		fits := symAnd(mLe(mI(-1<<63), h15Signed(n)), mLe(h15Signed(n), mI(1<<63-1)))
		check(!fits, "Int() errors only when the value does not fit int64")
	}
	d := h15Number(symRange(1, 18))
	_, derr := d.Int()
	check(derr != nil, "Int() of a decimal is an error")
}

// H15e: constructors denote their argument.
func H15e() {
	i := symI64()
	n := FromInt(i)
	check(n.FractionDigits == 0, "FromInt is an integer")
	check(mEq(h15Signed(n), mI(i)), "FromInt denotes i")
	j, err := n.Int()
	check(err == nil, "FromInt(i).Int() succeeds")
	check(j == i, "FromInt(i).Int() == i")
	u := symU64()
	check(mEq(h15Signed(FromUint(u)), mU(u)), "FromUint denotes u")
	reach("done")
}

// H15c: printing and parsing back at the same precision gives an equal number.
func H15c() {
	fd := symRange(param("fdlo"), param("fdhi"))
	n := h15Number(fd)
	s := n.String()
	var back Number
	var err error
	if fd == 0 {
		back, err = ParseInt(s)
	} else {
		back, err = ParseDecimal(s, uint8(fd))
	}
	reach("parsed-back")
	check(err == nil, "printed number parses back without error")
	if err == nil {
		check(back.FractionDigits == n.FractionDigits, "round trip keeps the precision")
		check(back.Value == n.Value, "round trip keeps the magnitude")
		check(symOr(back.Negative == n.Negative, n.Value == 0), "round trip keeps the sign (up to the sign of zero)")
		check(back.Equal(n), "round trip gives an Equal number")
	}
}

// h15Digits returns k symbolic decimal digits and their value; lead=true forbids a
// superfluous leading zero (a single "0" is allowed).
func h15Digits(k int, lead bool) ([]byte, mInt) {
	b := make([]byte, k)
	v := mU(0)
	for i := range b {
		c := symByte()
		assume(c >= '0')
		assume(c <= '9')
		if i == 0 && lead && k > 1 {
			assume(c != '0')
		}
		b[i] = c
		v = mAdd(mMulPow10(v, 1), mU(uint64(c-'0')))
	}
	return b, v
}

// H15d: a decimal literal [sign] digits [. digits] parses to exactly the number it denotes,
// or to an error when it does not fit. ia = integer digits, fb = fraction digits (0: no dot).
func H15d() {
	ia := symRange(param("ialo"), param("iahi"))
	fb := symRange(param("fblo"), param("fbhi"))
	sign := symChoice(3) // none, +, -
	ib, iv := h15Digits(ia, true)
	var lit []byte
	switch sign {
	case 1:
		lit = append(lit, '+')
	case 2:
		lit = append(lit, '-')
	}
	lit = append(lit, ib...)
	mant := iv
	if fb > 0 {
		fbs, fv := h15Digits(fb, false)
		lit = append(lit, '.')
		lit = append(lit, fbs...)
		mant = mAdd(mMulPow10(iv, fb), fv) // literal denotes mant / 10^fb
	}
	if sign == 2 {
		mant = mNeg(mant)
	}
	note(string(lit))
	if fb == 0 && param("asint") == 1 {
		n, err := ParseInt(string(lit))
		fits := symAnd(mLe(mNeg(mU(1<<64-1)), mant), mLe(mant, mU(1<<64-1)))
		if err == nil {
			reach("int-accepted")
			check(n.FractionDigits == 0, "ParseInt yields an integer")
			check(mEq(h15Signed(n), mant), "ParseInt yields exactly the denoted integer")
		} else {
			reach("int-rejected")
			check(!fits, "ParseInt rejects only what does not fit 64 bits of magnitude")
		}
		return
	}
	fd := symRange(param("fdlo"), param("fdhi"))
	n, err := ParseDecimal(string(lit), uint8(fd))
	if err == nil {
		reach("dec-accepted")
		check(int(n.FractionDigits) == fd, "ParseDecimal yields the requested precision")
		// n denotes sn/10^fd ; literal denotes mant/10^fb
		check(mEq(mMulPow10(h15Signed(n), fb), mMulPow10(mant, fd)), "ParseDecimal yields exactly the denoted number")
	} else {
		reach("dec-rejected")
		if fb <= fd {
			scaled := mMulPow10(mant, fd-fb)
			fits := symAnd(mLe(mI(-1<<63), scaled), mLe(scaled, mI(1<<63-1)))
			check(!fits, "ParseDecimal rejects only what does not fit the precision or 64 bits")
		}
	}
}

// H15f: range-checked integer arguments (yang.go asRangeInt) at their use site:
// `fraction-digits V` with V the decimal spelling of an arbitrary 64-bit magnitude with optional
// sign is accepted exactly for 1..18 and then is the precision of the type - never a wrapped value.
func H15f() {
	neg := symBool()
	v := symU64()
	val := mU(v)
	lit := strconv.FormatUint(v, 10)
	if neg {
		lit = "-" + lit
		val = mNeg(val)
	}
	src := `module m { namespace "urn:m"; prefix m; leaf l { type decimal64 { fraction-digits ` + lit + `; } } }`
	note(src)
	ms, lerrs := hLoad(src)
	check(len(lerrs) == 0, "the module parses")
	errs := ms.Process()
	inRange := symAnd(mLe(mI(1), val), mLe(val, mI(18)))
	if len(errs) > 0 {
		reach("rejected")
		check(symNot(inRange), "fraction-digits 1..18 is accepted")
		return
	}
	reach("accepted")
	check(inRange, "a fraction-digits argument outside 1..18 is an error - the text is converted without wrapping")
	e := ToEntry(ms.Modules["m"]).Dir["l"]
	check(e != nil && e.Type != nil && mEq(mI(int64(e.Type.FractionDigits)), val), "the type has exactly the written precision")
}
