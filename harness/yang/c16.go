package yang

// C16 - reported source positions are the true positions.
// Statement positions and syntax-error positions are recomputed from the text by the
// reference reader (c02ref.go: rLineCol counts characters, a tab and a CR one each).
// Every C02 harness checks statement positions on every accepted path and, for rejected
// texts, that some error line names the reference's fault position; the harnesses here
// build layouts and single-fault texts, where the first error line must name the fault.

// h16Layout returns a sequence of n layout pieces that may precede a keyword.
func h16Layout(n int) string {
	s := ""
	for i := 0; i < n; i++ {
		c := symByte()
		assume(c >= 'a')
		assume(c <= 'z')
		x := string([]byte{c})
		s += h02Pick(" ", "\t", "\n", "\r\n", "é "+x+";", "// "+x+"\n", "/* "+x+"\n "+x+" */", "/*日*/",
			"d '"+x+"\n "+x+"';", "d \""+x+"\n\t"+x+"\";", x+" { ", "} ", x+"é 'é';")
	}
	return s
}

// H16a: statement positions after every layout of n pieces; the text ends with `k;` and a
// nested `b { k2; }`.
func H16a() {
	s := h16Layout(param("n")) + "k;" + h02Pick("", " b {\n\tk2 v; }", "\tb{k2;}")
	note(s)
	h02Check(s, 0)
}

// H16b: a well-formed skeleton with exactly one lexical or syntactic fault, preceded by a
// symbolic layout: the first error line names the offending token, backslash or opener.
func H16b() {
	lay := h16Layout(param("n"))
	// close any block the layout opened, so that the fault below is the only one
	e := symByte()
	assume(e < 0x80)
	// escape characters that are known escapes are not faults
	assume(symNot(symOr(symOr(e == 'n', e == 't'), symOr(e == '"', e == '\\'))))
	esc := string([]byte{'\\', e})
	var fault string
	switch symChoice(9) {
	case 0:
		fault = "a; } b;" // unexpected }
	case 1:
		fault = "a b" + h02Pick(" ", "\n", "\t\t", " /* c */ ") + "c d;" // missing ; or {: the next token is at fault
	case 2:
		fault = h02Pick("\"q\"", "'q'", "\"q\" + 'r'") + " v;" // quoted string where a keyword must stand
	case 3:
		fault = "a \"x" + esc + "y\";" // invalid escape
	case 4:
		fault = "a \"x\n y" + esc + "\";" // invalid escape on a continuation line
	case 5:
		fault = "a \"unterminated;\n b c;" // unterminated "
	case 6:
		fault = "a 'unterminated;\n b c;" // unterminated '
	case 7:
		fault = "a b; /* unterminated\n c d;" // unterminated comment
	case 8:
		fault = "a { b" + h02Pick(" ", "\n ") + "} c;" // missing ; before }
	}
	s := lay + fault
	note(s)
	ref, rerr := rParse(s)
	_ = ref
	// the layout may itself be ill-formed (an unbalanced brace piece): then the text has more
	// than one fault and is outside this harness
	if rerr == nil || rerr.code != rReject || rerr.pos < len(lay) {
		reach("not-single-fault")
		return
	}
	h02Check(s, 2)
}

// h16Find returns the location of the first statement with the given keyword and argument.
func h16Find(ss []*Statement, kw, arg string) string {
	for _, s := range ss {
		if s.Keyword == kw && s.Argument == arg {
			return s.Location()
		}
		if l := h16Find(s.statements, kw, arg); l != "" {
			return l
		}
	}
	return ""
}

// H16c: one semantic fault in a module spread over several lines after a column-shifting
// prelude: every file:line:col that starts an error of building or resolving the module is the
// start of the statement the property names.
func H16c() {
	pre := h02Pick("", "\t", "/* é日 */ ", "  // c\n\t ", "\n\n   ")
	type fault struct{ text, kw, arg string }
	faults := []fault{
		{"bogus-sub q1;", "bogus-sub", "q1"},                                       // unknown substatement: itself
		{"leaf q2 { description d; }", "leaf", "q2"},                                // lacks mandatory type: the leaf
		{"leaf q3 { type nosuch3; }", "type", "nosuch3"},                            // unknown type
		{"leaf q4 { type m:nosuch4; }", "type", "m:nosuch4"},                        // unknown own-prefixed type
		{"leaf q5 { type x:nosuch5; }", "type", "x:nosuch5"},                        // unknown type in an imported module
		{"leaf q6 { type zz:t6; }", "type", "zz:t6"},                                // unknown prefix
		{"container q7 { uses nosuch7; }", "uses", "nosuch7"},                       // unknown grouping
		{"leaf q8 { type int8 { range \"9..1\"; } }", "range", "9..1"},              // bad range
		{"leaf q9 { type string { length \"5..2\"; } }", "length", "5..2"},          // bad length
		{"leaf q10 { type enumeration { enum e1; enum e2 { value 99999999999; } } }", "enum", "e2"}, // bad enum value
		{"leaf q11 { type int8 { range \"1..300\"; } }", "range", "1..300"},         // range wider than the parent
		{"typedef q12 { type string; }\n typedef q12b { type q12 { length \"a..b\"; } }", "length", "a..b"}, // malformed length in a typedef
		{"belongs-to q13 { prefix q; }", "belongs-to", "q13"}, // a substatement of submodules only, unknown in a module (KNOWN FINDING: reported at the module)
	}
	f := faults[symChoice(len(faults))]
	where := symChoice(3) // at module top, inside a container, inside a grouping that is used
	wrongKind := f.kw == "belongs-to"
	if wrongKind {
		assume(where == 0) // a module-level substatement
	}
	body := f.text
	switch where {
	case 1:
		body = "container wrap {\n\t\t" + f.text + "\n\t}"
	case 2:
		body = "grouping wrapg {\n  " + f.text + "\n }\n container user { uses wrapg; }"
	}
	text := pre + "module m {\n  namespace \"urn:m\";\n\tprefix m;\n  import x { prefix x; }\n  " + body + "\n  leaf fine { type string; }\n}\n"
	xmod := `module x { namespace "urn:x"; prefix x; typedef known { type int8; } }`
	note(text)
	// the file name holds formatting verbs: a position must come out verbatim
	fname := "f.yang"
	if symBool() {
		fname = "d%s/f%d%v.yang"
	}
	ss, perr := Parse(text, fname)
	check(perr == nil, "the text is well-formed")
	want := h16Find(ss, f.kw, f.arg)
	check(want != "", "harness: faulty statement located")
	hNoFiles()
	ms := NewModules()
	check(ms.Parse(xmod, "x.yang") == nil, "imported module loads")
	var msgs []string
	if err := ms.Parse(text, fname); err != nil {
		msgs = append(msgs, err.Error())
	} else {
		for _, e := range ms.Process() {
			msgs = append(msgs, e.Error())
		}
	}
	check(len(msgs) > 0, "the fault is reported")
	reach("reported")
	n := len(fname) + 1
	for _, m := range msgs {
		// every report of these fault kinds leads with file:line:col
		check(len(m) > n && m[:n] == fname+":", "an error of building or resolving a module leads with the position of a statement of that file")
		if len(m) > n && m[:n] == fname+":" {
			i, colons := n, 0
			for i < len(m) && colons < 2 {
				if m[i] == ':' {
					colons++
				}
				i++
			}
			checkKF(m[:i-1] == want, "a position in an error of building or resolving a module is the start of the statement the property names", wrongKind, "wrong-kind-field-position")
		}
	}
}


// H16long: columns beyond the widths a narrower integer would hold. A statement follows a string
// argument of 250 or 65530 characters on one line, shifted by 0..8 symbolic blanks, so that its
// column crosses 256 resp. 65536; a second line follows after 0..1 such long lines.
func H16long() {
	n := []int{250, 65530}[symChoice(2)]
	pad := symChoice(9)
	long := make([]byte, n)
	for i := range long {
		long[i] = 'x'
	}
	blanks := "         "[:pad]
	text := `a "` + string(long) + `";` + blanks + `b c;` + "\n" + ` d;`
	ss, err := Parse(text, "f")
	check(err == nil && len(ss) == 3, "the text parses")
	if err != nil || len(ss) != 3 {
		return
	}
	reach("accepted")
	colB := 3 + n + 2 + pad + 1
	check(ss[0].Location() == "f:1:1", "first statement")
	check(ss[1].Location() == "f:1:"+hItoa(int64(colB)), "a statement far to the right reports its true column")
	check(ss[2].Location() == "f:2:2", "the next line starts over")
	// and an error about a token far to the right
	_, err2 := Parse(`a "`+string(long)+`";`+blanks+`}`, "f")
	check(err2 != nil, "unexpected } is rejected")
	if err2 != nil {
		l, c, ok := h02Pos(err2.Error())
		check(ok && l == 1 && c == 3+n+2+pad+1, "a syntax error about a token far to the right names its true column")
	}
}
