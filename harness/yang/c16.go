package yang

// C16 - reported source positions are the true positions.
// Statement positions and syntax-error positions are recomputed from the text by the
// reference reader (c02ref.go: rLineCol counts characters, a tab and a CR one each).
// Every C02 harness checks statement positions on every accepted path and, for rejected
// texts, that some error line names the reference's fault position; the harnesses here
// build layouts and single-fault texts, where the first error line must name the fault.

// h16Layout returns a sequence of n layout pieces that may precede a keyword.
func h16Layout(n int) string {
	s := ""
	for i := 0; i < n; i++ {
		c := symByte()
		assume(c >= 'a')
		assume(c <= 'z')
		x := string([]byte{c})
		s += h02Pick(" ", "\t", "\n", "\r\n", "é "+x+";", "// "+x+"\n", "/* "+x+"\n "+x+" */", "/*日*/",
			"d '"+x+"\n "+x+"';", "d \""+x+"\n\t"+x+"\";", x+" { ", "} ", x+"é 'é';")
	}
	return s
}

// H16a: statement positions after every layout of n pieces; the text ends with `k;` and a
// nested `b { k2; }`.
func H16a() {
	s := h16Layout(param("n")) + "k;" + h02Pick("", " b {\n\tk2 v; }", "\tb{k2;}")
	note(s)
	h02Check(s, 0)
}

// H16b: a well-formed skeleton with exactly one lexical or syntactic fault, preceded by a
// symbolic layout: the first error line names the offending token, backslash or opener.
func H16b() {
	lay := h16Layout(param("n"))
	// close any block the layout opened, so that the fault below is the only one
	e := symByte()
	assume(e < 0x80)
	// escape characters that are known escapes are not faults
	assume(symNot(symOr(symOr(e == 'n', e == 't'), symOr(e == '"', e == '\\'))))
	esc := string([]byte{'\\', e})
	var fault string
	switch symChoice(9) {
	case 0:
		fault = "a; } b;" // unexpected }
	case 1:
		fault = "a b" + h02Pick(" ", "\n", "\t\t", " /* c */ ") + "c d;" // missing ; or {: the next token is at fault
	case 2:
		fault = h02Pick("\"q\"", "'q'", "\"q\" + 'r'") + " v;" // quoted string where a keyword must stand
	case 3:
		fault = "a \"x" + esc + "y\";" // invalid escape
	case 4:
		fault = "a \"x\n y" + esc + "\";" // invalid escape on a continuation line
	case 5:
		fault = "a \"unterminated;\n b c;" // unterminated "
	case 6:
		fault = "a 'unterminated;\n b c;" // unterminated '
	case 7:
		fault = "a b; /* unterminated\n c d;" // unterminated comment
	case 8:
		fault = "a { b" + h02Pick(" ", "\n ") + "} c;" // missing ; before }
	}
	s := lay + fault
	note(s)
	ref, rerr := rParse(s)
	_ = ref
	// the layout may itself be ill-formed (an unbalanced brace piece): then the text has more
	// than one fault and is outside this harness
	if rerr == nil || rerr.code != rReject || rerr.pos < len(lay) {
		reach("not-single-fault")
		return
	}
	h02Check(s, 2)
}
