package yang

import (
	"reflect"
	"sort"
	"strings"
)

// C03 - the AST mirrors the statement tree one-to-one or the build fails.
// Units: ast.go build/initTypes closures (through the tables the package's own init built from
// the struct tags of the current source), buildASTWithTypeDict, Modules.add.
// Oracle: a generic reflection walk over the produced node, written here from the property.

func h03Stmt(kw, arg string, kids ...*Statement) *Statement {
	return &Statement{Keyword: kw, HasArgument: true, Argument: arg, statements: kids, file: "f", line: 1, col: 1}
}

func h03IsMeta(tag string) bool {
	return tag == "" || tag == "Name" || tag == "Statement" || tag == "Parent" || tag == "Ext"
}

// h03Valid returns a minimal statement with keyword kw whose mandatory substatements are present.
func h03Valid(kw, arg string) *Statement {
	s := h03Stmt(kw, arg)
	if t, ok := nameMap[kw]; ok {
		pt := t.Elem()
		for i := 0; i < pt.NumField(); i++ {
			parts := strings.Split(pt.Field(i).Tag.Get("yang"), ",")
			for _, a := range parts[1:] {
				if a == "required" || a == "required="+kw {
					s.statements = append(s.statements, h03Valid(parts[0], "x"))
				}
			}
		}
	}
	return s
}

// h03Mirror asserts the one-to-one correspondence between node n and statement s.
func h03Mirror(n Node, s *Statement, parent Node, depth int) {
	check(n.Statement() == s, "node refers back to its statement")
	check(n.NName() == s.Argument, "node carries the statement's argument as its name")
	check(n.ParentNode() == parent, "node links to its enclosing node")
	if depth == 0 {
		return
	}
	v := reflect.ValueOf(n).Elem()
	tp := v.Type()
	byKw := map[string][]*Statement{}
	var exts []*Statement
	for _, ss := range s.statements {
		if strings.Contains(ss.Keyword, ":") {
			exts = append(exts, ss)
		} else {
			byKw[ss.Keyword] = append(byKw[ss.Keyword], ss)
		}
	}
	seen := map[string]bool{}
	for i := 0; i < tp.NumField(); i++ {
		tag := strings.Split(tp.Field(i).Tag.Get("yang"), ",")[0]
		if tag == "" || tag == "Name" || tag == "Statement" || tag == "Parent" {
			continue
		}
		f := v.Field(i)
		if tag == "Ext" {
			got := f.Interface().([]*Statement)
			check(len(got) == len(exts), "every prefixed substatement is in the extensions list exactly once")
			if len(got) == len(exts) {
				for j := range got {
					check(got[j] == exts[j], "extensions keep source order")
				}
			}
			continue
		}
		seen[tag] = true
		var kids []Node
		switch f.Kind() {
		case reflect.Ptr:
			if !f.IsNil() {
				kids = append(kids, f.Interface().(Node))
			}
		case reflect.Slice:
			for j := 0; j < f.Len(); j++ {
				kids = append(kids, f.Index(j).Interface().(Node))
			}
		}
		want := byKw[tag]
		check(len(kids) == len(want), "every substatement appears exactly once under the field of its keyword")
		if len(kids) == len(want) {
			for j := range kids {
				h03Mirror(kids[j], want[j], n, depth-1)
			}
		}
	}
	for kw := range byKw {
		check(seen[kw], "a keyword without a field in this context is rejected")
	}
}

func h03Keywords() []string {
	var kws []string
	for k := range nameMap {
		kws = append(kws, k)
	}
	sort.Strings(kws)
	return kws
}

func h03Arg(n int) string {
	b := make([]byte, n)
	for i := range b {
		b[i] = symByte()
	}
	return string(b)
}

// H03a: one level, all (parent, child, child) combinations. mode 0: second child in
// {none, same as first, specials}; mode 1: second child over the whole vocabulary.
func H03a() {
	kws := h03Keywords()
	extra := []string{"zz-unknown", "p:ext", "q:ext", "Name", "Statement", "Parent", "Ext", "Extensions", "Source", "submodule", ":half", "half:"}
	vocab := append(append([]string{}, kws...), extra...)
	P := kws[symChoice(len(kws))]
	pt := nameMap[P].Elem()
	req := map[string]bool{}
	single := map[string]bool{}
	known := map[string]bool{}
	var reqs []string
	for i := 0; i < pt.NumField(); i++ {
		parts := strings.Split(pt.Field(i).Tag.Get("yang"), ",")
		tag := parts[0]
		if h03IsMeta(tag) {
			continue
		}
		known[tag] = true
		if pt.Field(i).Type.Kind() == reflect.Ptr {
			single[tag] = true
		}
		for _, a := range parts[1:] {
			if a == "required" || a == "required="+P {
				req[tag] = true
				reqs = append(reqs, tag)
			}
			if strings.HasPrefix(a, "required=") && a[len("required="):] != P {
				known[tag] = false // only allowed under another keyword sharing this node type
			}
		}
	}
	sort.Strings(reqs)
	// mandatory substatements, one of them possibly omitted
	omit := ""
	if len(reqs) > 0 {
		if k := symChoice(len(reqs) + 1); k > 0 {
			omit = reqs[k-1]
		}
	}
	var kids []*Statement
	for _, r := range reqs {
		if r != omit {
			kids = append(kids, h03Valid(r, "x"))
		}
	}
	// an extension statement whose local name spells the omitted mandatory keyword does not stand in for it
	if omit != "" && symBool() {
		kids = append(kids, h03Stmt("zz:"+omit, "x"))
	}
	c1 := vocab[symChoice(len(vocab))]
	var c2 string
	if param("mode") == 1 {
		if k := symChoice(len(vocab) + 1); k > 0 {
			c2 = vocab[k-1]
		}
	} else {
		c2 = append([]string{"", c1}, extra[:3]...)[symChoice(5)]
	}
	for _, c := range []string{c1, c2} {
		if c != "" {
			kids = append(kids, h03Valid(c, h03Arg(1)))
		}
	}
	s := h03Stmt(P, h03Arg(param("arg")), kids...)
	note(P + " { " + c1 + "; " + c2 + "; } omit=" + omit)
	dummy := &Module{Name: "dummy"}
	v, err := build(s, reflect.ValueOf(dummy), newTypeDictionary())
	// what the property says must be rejected
	bad := false
	cnt := map[string]int{}
	for _, k := range kids {
		cnt[k.Keyword]++
	}
	for k, n := range cnt {
		if strings.Contains(k, ":") {
			continue
		}
		if !known[k] || single[k] && n > 1 {
			bad = true
		}
	}
	if omit != "" && cnt[omit] == 0 {
		bad = true
	}
	if err != nil {
		reach("rejected")
		return
	}
	reach("built")
	check(!bad, "unknown keyword in context / repeated single-valued substatement / absent mandatory substatement is rejected")
	h03Mirror(v.Interface().(Node), s, dummy, 2)
}

// H03top: the top-level statement must be a (complete) module or submodule.
func H03top() {
	kws := h03Keywords()
	vocab := append(append([]string{}, kws...), "submodule", "zz-unknown", "p:ext", "Name", "Parent", "")
	root := vocab[symChoice(len(vocab))]
	var kids []*Statement
	complete := symBool()
	if complete {
		if root == "submodule" {
			kids = append(kids, h03Valid("belongs-to", "m"))
		} else {
			kids = append(kids, h03Valid("namespace", "urn:x"), h03Valid("prefix", "p"))
		}
	}
	// several same-keyword siblings whose arguments are symbolic dates: after the node was
	// filed in the module set they are still in source order
	if (root == "module" || root == "submodule") && symBool() {
		for i := 0; i < 3; i++ {
			d := symByte()
			assume(d >= '0')
			assume(d <= '9')
			kids = append(kids, h03Stmt("revision", "2020-01-0"+string([]byte{d})))
		}
	}
	s := h03Stmt(root, "nm", kids...)
	note(root)
	ms := NewModules()
	n, err := buildASTWithTypeDict(s, ms.typeDict)
	if err == nil {
		err = ms.add(n)
	}
	ok := (root == "module" || root == "submodule") && complete
	if err != nil {
		reach("rejected")
		check(!ok, "a complete module or submodule is accepted at top level")
		return
	}
	reach("accepted")
	check(ok, "a top-level statement that is not a (complete) module or submodule is rejected")
	h03Mirror(n, s, nil, 2)
}

// H03hist: building a tree is a function of that tree alone: a tree that lacks a mandatory
// substatement is rejected also right after another tree was rejected (or accepted) in the same
// process - nothing about an earlier build may satisfy a later one's checks.
func H03hist() {
	first := []*Statement{
		h03Stmt("module", "bad1", h03Valid("namespace", "urn:x"), h03Valid("prefix", "p"), h03Stmt("leaf", "a", h03Valid("type", "string"), h03Stmt("bogus", "x"))),
		h03Stmt("module", "bad2", h03Valid("namespace", "urn:x"), h03Valid("prefix", "p"), h03Stmt("import", "i", h03Valid("prefix", "q"), h03Stmt("bogus", "x"))),
		h03Stmt("module", "good", h03Valid("namespace", "urn:x"), h03Valid("prefix", "p"), h03Stmt("leaf", "a", h03Valid("type", "string"))),
		h03Stmt("submodule", "bad3", h03Valid("belongs-to", "m"), h03Stmt("typedef", "t", h03Valid("type", "string"), h03Stmt("bogus", "x"))),
	}
	second := []*Statement{
		h03Stmt("module", "m2", h03Valid("namespace", "urn:y"), h03Valid("prefix", "p"), h03Stmt("container", "c", h03Stmt("leaf", "b"))),        // leaf without type
		h03Stmt("module", "m3", h03Stmt("container", "c", h03Stmt("leaf", "b")), h03Valid("namespace", "urn:y"), h03Valid("prefix", "p")),        // the same, written first
		h03Stmt("module", "m4", h03Valid("namespace", "urn:y"), h03Valid("prefix", "p"), h03Stmt("import", "i")),                                  // import without prefix
		h03Stmt("module", "m5", h03Valid("prefix", "p")),                                                                                          // module without namespace
		h03Stmt("submodule", "s6", h03Stmt("leaf", "z", h03Valid("type", "string"))),                                                             // submodule without belongs-to
		h03Stmt("module", "m7", h03Valid("namespace", "urn:y"), h03Valid("prefix", "p"), h03Stmt("typedef", "t")),                                 // typedef without type
	}
	a := first[symChoice(len(first))]
	b := second[symChoice(len(second))]
	rounds := 1 + symChoice(2)
	for i := 0; i < rounds; i++ {
		buildASTWithTypeDict(a, newTypeDictionary())
	}
	_, err := buildASTWithTypeDict(b, newTypeDictionary())
	reach("built")
	check(err != nil, "an absent mandatory substatement is always rejected, whatever was built before")
}


// H03two: a source text with two top-level statements: the first a complete module, the second
// a complete module, an incomplete one, a non-module or an unknown keyword (before or after the
// good one): every top-level statement is built - the text is accepted only if both are
// modules, and then both are in the set, mirroring their statements.
func H03two() {
	good := `module g { namespace "urn:g"; prefix g; leaf l { type string; } }`
	others := []string{
		`module h { namespace "urn:h"; prefix h; container c; }`,
		`module h { prefix h; }`,
		`container c { leaf l { type string; } }`,
		`zz-unknown x;`,
		`submodule s { belongs-to g { prefix g; } leaf sl { type string; } }`,
		`leaf l;`,
		`module h { namespace "urn:h"; prefix h; leaf l; }`,
	}
	k := symChoice(len(others))
	text := good + "\n" + others[k]
	if symBool() {
		text = others[k] + "\n" + good
	}
	note(text)
	hNoFiles()
	ms := NewModules()
	err := ms.Parse(text, "two.yang")
	ok := k == 0 || k == 4
	if err != nil {
		reach("rejected")
		check(!ok, "a text of two complete modules (or a module and its submodule) is accepted")
		return
	}
	reach("accepted")
	check(ok, "a top-level statement that is not a complete module or submodule is rejected, wherever it stands in the text")
	check(ms.Modules["g"] != nil, "every top-level module of the text is in the set")
	if k == 0 {
		check(ms.Modules["h"] != nil && len(ms.Modules["h"].Container) == 1, "every top-level module of the text is in the set")
	} else {
		check(ms.SubModules["s"] != nil && len(ms.SubModules["s"].Leaf) == 1, "every top-level submodule of the text is in the set")
	}
}
