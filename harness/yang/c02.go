package yang

// C02 - generic parsing agrees with the RFC 7950 section 6 reading of the text.
// C16 (statement and syntax-error positions) is checked on the same runs, see c16.go.
// Unit: yang.Parse (lex.go + parse.go in full). Oracle: c02ref.go.

// h02Pos parses the leading "f:line:col:" of the first line of an error text.
func h02Pos(msg string) (line, col int, ok bool) {
	i := 0
	if len(msg) < 2 || msg[0] != 'f' || msg[1] != ':' {
		return 0, 0, false
	}
	i = 2
	num := func() (int, bool) {
		neg := false
		if i < len(msg) && msg[i] == '-' {
			neg = true
			i++
		}
		st := i
		v := 0
		for i < len(msg) && msg[i] >= '0' && msg[i] <= '9' {
			v = v*10 + int(msg[i]-'0')
			i++
		}
		if i == st || i >= len(msg) || msg[i] != ':' {
			return 0, false
		}
		i++
		if neg {
			v = -v
		}
		return v, true
	}
	l, ok1 := num()
	if !ok1 {
		return 0, 0, false
	}
	c, ok2 := num()
	if !ok2 {
		return 0, 0, false
	}
	return l, c, true
}

// h02Same asserts that the implementation's forest equals the reference forest: keywords,
// argument presence, exact argument bytes, nesting, sibling order - and (C16) positions.
func h02Same(s string, ref []*rStmt, got []*Statement) {
	check(len(ref) == len(got), "same number of statements at this level")
	if len(ref) != len(got) {
		return
	}
	for i := range ref {
		x, y := ref[i], got[i]
		check(x.kw == y.Keyword, "keyword is the unquoted token of the text")
		check(x.hasArg == y.HasArgument, "argument presence")
		check(x.arg == y.Argument, "argument string is what RFC 7950 6.1.3 prescribes")
		l, c := rLineCol(s, x.pos)
		check(y.Location() == "f:"+hItoa(int64(l))+":"+hItoa(int64(c)), "C16: statement position (file, line, column) is the first character of its keyword")
		h02Same(s, x.kids, y.statements)
	}
}

// h02Check runs the reference and the implementation on one text and compares.
// errpos: also check the position in the first error line against the reference's fault position.
func h02Check(s string, errpos int) {
	ref, rerr := rParse(s)
	if rerr != nil && rerr.code == rAmbiguous {
		reach("outside-claim")
		return
	}
	got, gerr := Parse(s, "f")
	if rerr != nil {
		reach("rejected")
		check(gerr != nil, "a text that is not a well-formed statement sequence is rejected")
		if gerr == nil {
			return
		}
		check(got == nil, "on rejection no statements are returned")
		check(len(gerr.Error()) > 0, "on rejection the error is non-empty")
		if errpos > 0 && rerr.pos >= 0 {
			l, c := rLineCol(s, rerr.pos)
			note(rerr.kind)
			msg := gerr.Error()
			if errpos == 2 {
				// single-fault texts: the first (only) error line is about that fault
				gl, gc, ok := h02Pos(msg)
				check(ok, "C16: a syntax error names a file:line:col")
				check(gl == l && gc == c, "C16: a syntax error names the position of the offending token, backslash or opener")
			} else {
				// arbitrary texts may hold several faults: some error line must name this one
				found := false
				for st := 0; st < len(msg); {
					en := st
					for en < len(msg) && msg[en] != '\n' {
						en++
					}
					if gl, gc, ok := h02Pos(msg[st:en]); ok && gl == l && gc == c {
						found = true
					}
					st = en + 1
				}
				check(found, "C16: some error line names the position of the first offending token, backslash or opener")
			}
		}
		return
	}
	reach("accepted")
	check(gerr == nil, "a well-formed statement sequence is accepted")
	if gerr != nil {
		return
	}
	h02Same(s, ref, got)
}

func h02Text(n int) []byte {
	b := make([]byte, n)
	for i := range b {
		b[i] = symByte()
		assume(b[i] < 0x80)
	}
	return b
}

// h02ValidUTF8 is the well-formedness of UTF-8 (Unicode 15, table 3-7), written out.
func h02ValidUTF8(b []byte) bool {
	for i := 0; i < len(b); {
		c := b[i]
		n, lo, hi := 0, byte(0x80), byte(0xBF)
		switch {
		case c < 0x80:
			i++
			continue
		case c >= 0xC2 && c <= 0xDF:
			n = 1
		case c == 0xE0:
			n, lo = 2, 0xA0
		case c == 0xED:
			n, hi = 2, 0x9F
		case c >= 0xE1 && c <= 0xEF:
			n = 2
		case c == 0xF0:
			n, lo = 3, 0x90
		case c == 0xF4:
			n, hi = 3, 0x8F
		case c >= 0xF1 && c <= 0xF3:
			n = 3
		default:
			return false
		}
		if i+n >= len(b) {
			return false
		}
		if b[i+1] < lo || b[i+1] > hi {
			return false
		}
		for j := 2; j <= n; j++ {
			if b[i+j] < 0x80 || b[i+j] > 0xBF {
				return false
			}
		}
		i += n + 1
	}
	return true
}

// H02bytes: every well-formed UTF-8 text of exactly n bytes (all byte values; multi-byte
// characters with symbolic content at every position): the forest, every argument byte and the
// positions (columns count characters) against the reference reader.
func H02bytes() {
	n := param("n")
	b := make([]byte, n)
	nonASCII := false
	for i := range b {
		b[i] = symByte()
		nonASCII = symOr(nonASCII, b[i] >= 0x80)
	}
	assume(nonASCII) // the ASCII texts are H02raw's
	assume(h02ValidUTF8(b))
	h02Check(string(b), param("errpos"))
}

// H02raw: every ASCII text of exactly n bytes.
func H02raw() {
	b := h02Text(param("n"))
	h02Check(string(b), param("errpos"))
}

// h02Pick returns one of the given strings (a symbolic choice, concretised).
func h02Pick(opts ...string) string { return opts[symChoice(len(opts))] }

// h02Body returns n symbolic bytes, each assumed to be one of the bytes of alphabet.
func h02Body(n int, alphabet string) []byte {
	b := make([]byte, n)
	for i := range b {
		c := symByte()
		in := false
		for j := 0; j < len(alphabet); j++ {
			in = symOr(in, c == alphabet[j])
		}
		assume(in)
		b[i] = c
	}
	return b
}

// H02str: `PRE k SEP "BODY";` - what precedes the opening quote on its line decides the strip
// column of a multi-line double-quoted string; BODY ranges over the bytes the string reader
// distinguishes.
func H02str() {
	pre := h02Pick("", " ", "\t", "   ", " \t", "\t ", "/**/", "/* c */ ", "'s'+", "'s' + ", "\n ", "/*é*/", "'é\t' +", "x y;\n\t", "// c\n  ",
		"    /* a\nb */ ", "'x\ny' + ", "\t\t'p\n q'+") // skipped text that spans a line break, the quote opening on the line where it ends
	kw := h02Pick("k", "pattern")
	sep := h02Pick(" ", "")
	body := h02Body(param("m"), " \t\n\\nx\"")
	tail := h02Pick(";", "{}", " + \"u\";")
	s := pre
	if len(pre) >= 3 && pre[0] == '\'' {
		// a quoted first piece needs a keyword in front of it
		s = "k " + pre
	} else {
		s = pre + kw + sep
	}
	s += "\"" + string(body) + "\"" + tail
	note(s)
	h02Check(s, 1)
}

// H02esc: continuation lines of a double-quoted string that begin (after 0..3 blanks) with an
// escape sequence followed by blanks: only the blanks before the first non-blank of the line are
// subject to stripping, the text an escape yields and everything after it is content.
func H02esc() {
	pre := h02Pick("", "  ", "     ", "\t", "/**/ ")
	lead := h02Pick("", " ", "  ", "   ", "\t")
	esc := string(h02Body(1, "nt\"\\x"))
	after := string(h02Body(param("m"), " \tx"))
	head := h02Pick("a", "", "a ")
	s := pre + "k \"" + head + "\n" + lead + "\\" + esc + after + "\";"
	note(s)
	h02Check(s, 1)
}

// H02ml: a double-quoted string that opens on the line where a comment or a single-quoted piece
// spanning a line break ends: the strip column is the quote's column on ITS line. The
// continuation line is LF followed by 7 symbolic bytes over {blank, tab, x}.
func H02ml() {
	pre := h02Pick("k /* a\nb */ ", "k 'x\ny' + ", "/* long long comment\n*/k ", "      k 'p\n' +", "k /*\n\n*/\t", "k 'aaaaaaaa\nb'+ 'c' + ")
	body := "h\n" + string(h02Body(7, " \tx"))
	s := pre + "\"" + body + "\";"
	note(s)
	h02Check(s, 1)
}

// H02sq: single-quoted and unquoted arguments and comments are taken verbatim / skipped verbatim:
// `k 'BODY';`, `k BODY;`, `k /*BODY*/ w;`, `k "a" + 'BODY';` with BODY over the bytes that matter
// to any reader (CR, LF, blank, tab, backslash, both quotes, a letter).
func H02sq() {
	body := string(h02Body(param("m"), "\r\n \t\\\"'x"))
	var s string
	switch symChoice(4) {
	case 0:
		s = "k '" + body + "'" + h02Pick(";", " ;", "{}")
	case 1:
		s = "k " + body + ";"
	case 2:
		s = "k /*" + body + "*/ w;"
	case 3:
		s = "k \"a\" + '" + body + "';"
	}
	note(s)
	h02Check(s, 1)
}

// H02plus: one statement whose argument is made of up to three pieces (double-quoted, single-
// quoted, unquoted, or a quoted string that is exactly "+") with a `+` operator, nothing, or a
// blank-less `+` between them: what is concatenated, what is a second argument (an error), and
// that only an unquoted + is the operator.
func H02plus() {
	piece := func() string {
		// the content of a quoted piece is a symbolic byte: the solver finds the `+` case
		switch symChoice(4) {
		case 0:
			return "\"" + string(h02Body(1, "+s ;")) + "\""
		case 1:
			return "'" + string(h02Body(1, "+t ;")) + "'"
		case 2:
			return "\"\""
		}
		return "w"
	}
	full := param("full") == 1
	op := func() string {
		if full {
			return h02Pick(" + ", " ", "+", " +", "+ ", "\n+\n")
		}
		return h02Pick(" + ", " ", "+", "\n+\n")
	}
	s := "k "
	if full {
		s = h02Pick("k ", "pattern ")
	}
	s += piece() + op() + piece()
	if symBool() {
		s += op() + piece()
	}
	if full {
		s += h02Pick(";", " ;", " { x; }", "")
	} else {
		s += h02Pick(";", "")
	}
	note(s)
	h02Check(s, 1)
}

// H02cat: token sequences with every boundary spelled with or without a blank wherever the
// boundary is already determined - the look-ahead / push-back logic of `+` concatenation.
func H02cat() {
	t := param("t")
	s := ""
	for i := 0; i < t; i++ {
		tok := h02Pick("a", "b", "\"s\"", "'t'", "+", ";", "{", "}", "\"\"", "pattern", "\"+\"", "'+'")
		sep := h02Pick("", " ", "/**/", "\n")
		s += tok + sep
	}
	note(s)
	h02Check(s, 1)
}

// H02nest: brace accounting, nesting and sibling order.
func H02nest() {
	t := param("t")
	s := ""
	for i := 0; i < t; i++ {
		s += h02Pick("a ", "b ", "; ", "{ ", "} ", "\"q\" ")
	}
	note(s)
	h02Check(s, 1)
}

// H02pat: unknown escapes are errors except inside the argument of a pattern statement.
func H02pat() {
	kw := h02Pick("pattern", "patter", "patterns", "k")
	e := symByte()
	assume(e < 0x80)
	esc := string([]byte{'\\', e})
	var s string
	switch symChoice(5) {
	case 0:
		s = kw + " \"a" + esc + "b\";"
	case 1:
		s = kw + " \"a\" + \"" + esc + "\";"
	case 2:
		s = kw + " 'a' + \"" + esc + "\" + \"c" + esc + "\";"
	case 3:
		s = "x { " + kw + " \"" + esc + "\"; y \"" + esc + "\"; }"
	case 4:
		s = kw + " \"" + esc + "\" { z \"" + esc + "\"; }"
	}
	note(s)
	h02Check(s, 1)
}
