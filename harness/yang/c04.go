package yang

// C04 - a clean Process yields proper trees and really means there were no errors.
// The walker hWF (tb.go) is the check; it runs inside every pipeline harness on every cleanly
// processed set. H04 drives it over the composition universe without config statements (which do
// not bear on tree shape); the grouping, late-collision, composite and deviation universes are
// the functions of C06, C07, C17 and C08 registered under C04 as well.
func H04() {
	hcSlim = param("slim") == 1
	hcNoCfg = true
	sc := hcGenerate(param("n"))
	note(sc.texts[0] + sc.texts[1] + sc.texts[2] + sc.texts[3] + sc.texts[4])
	ms, lerrs := hLoad(sc.texts...)
	check(len(lerrs) == 0, "the generated modules parse")
	if len(lerrs) > 0 {
		return
	}
	errs := ms.Process()
	check(len(errs) == 0, "the generated modules process without error")
	if len(errs) > 0 {
		return
	}
	reach("processed")
	nodes := hWF(ms)
	// every level of the composition is where it was placed, once
	for _, lv := range sc.levels {
		e := hcWalk(ms, lv.steps)
		check(e != nil, "C04: every composed node is reachable by the path of its composition")
		n := 0
		for _, x := range nodes {
			if x.e == e {
				n++
			}
		}
		check(e == nil || n == 1, "C04: every node is reachable by exactly one path")
	}
}
