package yang

// C04 - a clean Process yields proper trees and really means there were no errors.
// The walker hWF (tb.go) is the check; it runs inside every pipeline harness on every cleanly
// processed set. H04 drives it over the composition universe without config statements (which do
// not bear on tree shape); the grouping, late-collision, composite and deviation universes are
// the functions of C06, C07, C17 and C08 registered under C04 as well.
func H04() {
	hcSlim = param("slim") == 1
	hcNoCfg = true
	sc := hcGenerate(param("n"))
	note(sc.texts[0] + sc.texts[1] + sc.texts[2] + sc.texts[3] + sc.texts[4])
	ms, lerrs := hLoad(sc.texts...)
	check(len(lerrs) == 0, "the generated modules parse")
	if len(lerrs) > 0 {
		return
	}
	errs := ms.Process()
	check(len(errs) == 0, "the generated modules process without error")
	if len(errs) > 0 {
		return
	}
	reach("processed")
	nodes := hWF(ms)
	// every level of the composition is where it was placed, once
	for _, lv := range sc.levels {
		e := hcWalk(ms, lv.steps)
		check(e != nil, "C04: every composed node is reachable by the path of its composition")
		n := 0
		for _, x := range nodes {
			if x.e == e {
				n++
			}
		}
		check(e == nil || n == 1, "C04: every node is reachable by exactly one path")
	}
}

// H04rev: two revisions of one module are both loaded modules: each gets its implicit cases, each
// one's augments are applied exactly once, and the walker holds on both trees. The older and the
// newer revision each hold a choice with a shorthand member and an augment of the base module;
// load order symbolic.
func H04rev() {
	b := `module b { namespace "urn:b"; prefix b; container c { leaf l { type string; } } }`
	a19 := `module a { namespace "urn:a"; prefix a; revision 2019-01-01; import b { prefix b; } container own { choice ch { leaf s19 { type string; } } } augment /b:c { leaf x19 { type string; } choice k19 { leaf m19 { type int8; } } } }`
	a20 := `module a { namespace "urn:a"; prefix a; revision 2020-06-15; import b { prefix b; } container own { choice ch { leaf s20 { type string; } case e { leaf t20 { type string; } } } } augment /b:c { leaf x20 { type string; } } }`
	texts := []string{b, a19, a20}
	orders := [][]int{{0, 1, 2}, {0, 2, 1}, {1, 2, 0}, {2, 1, 0}, {1, 0, 2}, {2, 0, 1}}
	o := orders[symChoice(len(orders))]
	hNoFiles()
	ms := NewModules()
	for _, k := range o {
		check(ms.Parse(texts[k], "f"+string([]byte{'0' + byte(k)})+".yang") == nil, "the texts load")
	}
	errs := ms.Process()
	check(len(errs) == 0, "the set processes")
	if len(errs) > 0 {
		return
	}
	reach("processed")
	hWF(ms)
	c := ToEntry(ms.Modules["b"]).Dir["c"]
	check(c.Dir["x19"] != nil && c.Dir["x20"] != nil && c.Dir["k19"] != nil && len(c.Dir) == 4, "C07: the augments of every loaded module - both revisions - are applied exactly once")
	if k := c.Dir["k19"]; k != nil {
		check(k.Dir["m19"] != nil && k.Dir["m19"].Kind == CaseEntry && k.Dir["m19"].Dir["m19"] != nil, "C04: the shorthand member an augment adds to a choice gets its implicit case")
	}
	for _, rev := range []string{"a@2019-01-01", "a@2020-06-15"} {
		m := ms.Modules[rev]
		check(m != nil, "both revisions are loaded")
		if m == nil {
			continue
		}
		ch := ToEntry(m).Dir["own"].Dir["ch"]
		for _, n := range hSortedDir(ch.Dir) {
			check(ch.Dir[n].Kind == CaseEntry, "C04: every child of a choice is a case, in every loaded revision")
		}
	}
}
