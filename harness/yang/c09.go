package yang

// C09 - type names bind lexically and derived types inherit the whole chain.
// Units: types.go Type.resolve / Typedef.resolve / typeDictionary (find, findExternal,
// findIncluded), node.go FindModuleByPrefix, through Parse + Process.
// Oracles: a reference lexical binder over the declared sites (H09a); reference inheritance
// over the declared chain: nearest definition wins, patterns accumulate (H09b).

var h09Kinds = []TypeKind{Yint8, Yint16, Yint32, Yint64, Yuint8, Yuint16, Yuint32}
var h09KindNames = []string{"int8", "int16", "int32", "int64", "uint8", "uint16", "uint32"}

// typedef definition sites; the base type tells which one a reference got bound to
const (
	sMTop  = iota // module m, top level          int8
	sSTop         // submodule s of m, top level  int16
	sCont         // container c in m             int32
	sGrp          // grouping g in m              int64
	sInput        // input of rpc r in m          uint8
	sXTop         // imported module x, top       uint16
	sXSTop        // submodule xs of x, top       uint32
	nSites
)

func h09Typedef(site int, present bool, name byte) string {
	if !present {
		return ""
	}
	return "typedef " + string([]byte{name}) + " { type " + h09KindNames[site] + "; } "
}

func H09a() {
	var present [nSites]bool
	var names [nSites]byte
	for i := 0; i < nSites; i++ {
		present[i] = symBool()
		b := symByte()
		assume(symOr(b == 'a', b == 'b'))
		names[i] = b
	}
	// the referencing leaf: its site, and how the type name is spelled
	refSite := symChoice(5)   // 0 m top, 1 in container c, 2 in grouping g (used in container u), 3 in rpc input, 4 in submodule s top
	spell := symChoice(4)     // 0 unprefixed, 1 own prefix, 2 the import's prefix, 3 an unknown prefix
	rb := symByte()
	assume(symOr(rb == 'a', rb == 'b'))
	rname := string([]byte{rb})
	pre := []string{"", "m:", "px:", "zz:"}[spell]
	leaf := "leaf ref { type " + pre + rname + "; } "
	at := func(site int) string {
		if refSite == site {
			return leaf
		}
		return ""
	}
	// the submodule-level typedefs sit in the first or in the second submodule a module includes
	second := symBool()
	incM, incX := "include s; ", "include xs; "
	sName, xsName := "s", "xs"
	if second {
		incM, incX = "include s0; include s; ", "include xs0; include xs; "
	}
	m := `module m { namespace "urn:m"; prefix m; ` + incM + `import x { prefix px; } ` + h09Typedef(sMTop, present[sMTop], names[sMTop]) + at(0) +
		`container c { ` + h09Typedef(sCont, present[sCont], names[sCont]) + at(1) + `} ` +
		`grouping g { ` + h09Typedef(sGrp, present[sGrp], names[sGrp]) + at(2) + `} container u { uses g; } ` +
		`rpc r { input { ` + h09Typedef(sInput, present[sInput], names[sInput]) + at(3) + `} } }`
	s := `submodule s { belongs-to m { prefix m; } import x { prefix px; } ` + h09Typedef(sSTop, present[sSTop], names[sSTop]) + at(4) + `}`
	x := `module x { namespace "urn:x"; prefix x; ` + incX + h09Typedef(sXTop, present[sXTop], names[sXTop]) + `}`
	s0 := `submodule s0 { belongs-to m { prefix m; } typedef unrelated { type string; } }`
	xs0 := `submodule xs0 { belongs-to x { prefix x; } typedef unrelated { type string; } }`
	_, _ = sName, xsName
	xs := `submodule xs { belongs-to x { prefix x; } ` + h09Typedef(sXSTop, present[sXSTop], names[sXSTop]) + `}`
	note(m + s + x + xs)

	// reference binder: the scopes searched, in order
	var order []int
	switch spell {
	case 0, 1:
		switch refSite {
		case 1:
			order = []int{sCont}
		case 2:
			order = []int{sGrp}
		case 3:
			order = []int{sInput}
		}
		// then the top level of the module and of its submodules. A name defined at the top of
		// both the module and its submodule is a schema error (one namespace): assumed away.
		order = append(order, sMTop, sSTop)
		assume(symNot(symAnd(symAnd(present[sMTop], present[sSTop]), names[sMTop] == names[sSTop])))
	case 2:
		order = []int{sXTop, sXSTop}
		assume(symNot(symAnd(symAnd(present[sXTop], present[sXSTop]), names[sXTop] == names[sXSTop])))
	}
	bound := -1          // concrete index cannot be known: names are symbolic; compute as terms
	_ = bound
	// expectKind[k] == true iff the reference must bind to site k
	taken := false
	want := make([]bool, nSites)
	for _, k := range order {
		hit := symAnd(present[k], names[k] == rb)
		want[k] = symAnd(symNot(taken), hit)
		taken = symOr(taken, hit)
	}

	texts := []string{m, s, x, xs}
	if second {
		texts = append(texts, s0, xs0)
	}
	ms, lerrs := hLoad(texts...)
	check(len(lerrs) == 0, "the modules parse")
	if len(lerrs) > 0 {
		return
	}
	errs := ms.Process()
	if len(errs) > 0 {
		reach("rejected")
		check(symNot(taken), "a type reference that binds to a typedef is resolved without error")
		return
	}
	reach("resolved")
	check(taken, "an unknown or unresolvable type reference is an error")
	hWF(ms)
	em := ToEntry(ms.Modules["m"])
	var e *Entry
	switch refSite {
	case 0, 4:
		e = em.Dir["ref"]
	case 1:
		e = em.Dir["c"].Dir["ref"]
	case 2:
		e = em.Dir["u"].Dir["ref"]
	case 3:
		e = em.Dir["r"].RPC.Input.Dir["ref"]
	}
	check(e != nil && e.Type != nil, "the referencing leaf has a resolved type")
	if e == nil || e.Type == nil {
		return
	}
	for k := 0; k < nSites; k++ {
		check(symOr(symNot(want[k]), e.Type.Kind == h09Kinds[k]), "the reference denotes the typedef in the nearest enclosing scope, then the module and its submodules; a foreign prefix denotes exactly the imported module (submodules included)")
	}
}

// H09b: a derivation chain typedef t1 <- typedef t2 <- leaves; every level may add units,
// default, a pattern, a length restriction; two leaves derive from the same typedef.
func H09b() {
	type lvl struct{ units, def, pat, length bool }
	var l [4]lvl // t1, t2, leaf d1, leaf d2
	for i := range l {
		l[i] = lvl{symBool(), symBool(), symBool(), symBool()}
	}
	idx := func(i int) string { return string([]byte{'1' + byte(i)}) }
	restr := func(i int) string {
		s := ""
		if l[i].pat {
			s += ` pattern "p` + idx(i) + `";`
		}
		if l[i].length {
			s += ` length "` + idx(i) + `..9";`
		}
		if s == "" {
			return ";"
		}
		return " {" + s + " }"
	}
	extra := func(i int) string {
		s := ""
		if l[i].units {
			s += ` units "u` + idx(i) + `";`
		}
		if l[i].def {
			s += ` default "dd` + idx(i) + `";`
		}
		return s
	}
	m := `module m { namespace "urn:m"; prefix m; ` +
		`typedef t1 { type string` + restr(0) + extra(0) + ` } ` +
		`typedef t2 { type t1` + restr(1) + extra(1) + ` } ` +
		`typedef t3 { type t2 { pattern "p3a"; } } ` +
		`leaf d1 { type t3` + restr(2) + ` } leaf d2 { type t3` + restr(3) + ` } leaf d0 { type t2; } }`
	note(m)
	ms, lerrs := hLoad(m)
	check(len(lerrs) == 0, "the module parses")
	errs := ms.Process()
	check(len(errs) == 0, "the module processes")
	if len(errs) > 0 {
		return
	}
	reach("resolved")
	em := ToEntry(ms.Modules["m"])
	expect := func(leaf int) (units, def string, hasDef bool, pats []string, lo string) {
		for _, i := range []int{0, 1} {
			if l[i].units {
				units = "u" + idx(i)
			}
			if l[i].def {
				def, hasDef = "dd"+idx(i), true
			}
		}
		chain := []int{0, 1}
		if leaf >= 0 {
			chain = append(chain, leaf)
		}
		lo = ""
		for _, i := range chain {
			if i == leaf || i < 2 {
				if l[i].pat {
					pats = append(pats, "p"+idx(i))
				}
				if l[i].length {
					lo = idx(i)
				}
			}
			if i == 1 && leaf >= 2 {
				pats = append(pats, "p3a")
			}
		}
		if leaf >= 2 && len(chain) == 3 && !contains09(pats, "p3a") {
			pats = append(pats, "p3a")
		}
		return
	}
	for _, c := range []struct {
		name string
		leaf int
	}{{"d0", -1}, {"d1", 2}, {"d2", 3}} {
		e := em.Dir[c.name]
		check(e != nil && e.Type != nil, "leaf resolved")
		if e == nil || e.Type == nil {
			continue
		}
		units, def, hasDef, pats, lo := expect(c.leaf)
		// order of accumulated patterns: t1, t2, t3, then the leaf's own
		var ordered []string
		for _, p := range []string{"p1", "p2", "p3a", "p3", "p4"} {
			if contains09(pats, p) {
				ordered = append(ordered, p)
			}
		}
		check(e.Type.Kind == Ystring, "the resolved type carries the base kind")
		check(e.Type.Units == units, "units: nearest definition in the chain wins")
		check(e.Type.HasDefault == hasDef && e.Type.Default == def, "default: nearest definition in the chain wins")
		check(len(e.Type.Pattern) == len(ordered), "patterns of the whole chain are accumulated, each leaf its own")
		if len(e.Type.Pattern) == len(ordered) {
			for i := range ordered {
				check(e.Type.Pattern[i] == ordered[i], "patterns of the whole chain are accumulated, each leaf its own")
			}
		}
		if lo != "" {
			check(len(e.Type.Length) == 1 && e.Type.Length[0].Min.Value == uint64(lo[0]-'0'), "length: nearest restriction in the chain")
		} else {
			check(len(e.Type.Length) == 0, "no length restriction in the chain")
		}
	}
}

func contains09(ss []string, s string) bool {
	for _, x := range ss {
		if x == s {
			return true
		}
	}
	return false
}

// H09c: unknown, unresolvable or cyclic type references are errors.
func H09c() {
	// three typedefs whose bases are symbolic names over {a,b,c,string}: cycles, chains, unknowns
	base := func() string {
		// x:tb is a typedef of the mutually importing module x whose base is m's typedef b
		return []string{"a", "b", "c", "string", "nosuch", "m:a", "union { type string; type b; }", "x:tb"}[symChoice(8)]
	}
	ba, bb, bc := base(), base(), base()
	term := func(b string) string {
		if len(b) > 5 && b[:5] == "union" {
			return b + " "
		}
		return b + "; "
	}
	// a fourth typedef, declared in a container and used by nothing: its reference is checked all the same
	bd := []string{"string", "nosuch", "zz:t", "d", "a"}[symChoice(5)]
	m := `module m { namespace "urn:m"; prefix m; import x { prefix x; } typedef a { type ` + term(ba) + `} typedef b { type ` + term(bb) + `} typedef c { type ` + term(bc) + `} leaf l { type a; } container k { typedef d { type ` + bd + `; } } }`
	x := `module x { namespace "urn:x"; prefix x; import m { prefix mm; } typedef tb { type mm:b; } }`
	note(m)
	ms, lerrs := hLoad(m, x)
	check(len(lerrs) == 0, "the module parses")
	errs := ms.Process()
	// reference: follow the names from each typedef; unknown or revisiting = bad
	next := map[string]string{"a": ba, "b": bb, "c": bc}
	bad := false
	for _, start := range []string{"a", "b", "c"} {
		seen := map[string]bool{}
		var walk func(n string)
		walk = func(n string) {
			if n == "m:a" {
				n = "a"
			}
			switch n {
			case "string":
				return
			case "nosuch":
				bad = true
				return
			case "union { type string; type b; }", "x:tb":
				walk("b")
				return
			}
			if seen[n] {
				bad = true
				return
			}
			seen[n] = true
			walk(next[n])
			delete(seen, n)
		}
		walk(start)
	}
	if bd == "nosuch" || bd == "zz:t" || bd == "d" {
		bad = true
	}
	if len(errs) > 0 {
		reach("rejected")
		check(bad, "acyclic chains over known types resolve without error")
		return
	}
	reach("resolved")
	check(!bad, "an unknown, unresolvable or cyclic type reference is an error")
	e := ToEntry(ms.Modules["m"]).Dir["l"]
	check(e != nil && e.Type != nil && (e.Type.Kind == Ystring || e.Type.Kind == Yunion), "the chain ends in its base kind")
}

// H09u: union members of the whole derivation chain: every member in written order, members
// that are structurally identical to an earlier one listed once.
func H09u() {
	// member spellings and their structural signature (the library compares members structurally)
	opts := []struct{ text, sig string }{
		{"type string;", "string"}, {"type host;", "string"}, {"type label;", "string"}, {"type int8;", "int8"},
		{"type enumeration { enum e1; enum e2; }", "enum"}, {"type pat;", "string-pattern"}, {"type uint32;", "uint32"}, {"type nosuch;", "ERR"},
		{"type bits { bit p; }", "bits-p"}, {"type bits { bit q; bit r; }", "bits-qr"}, {"type enumeration { enum z; }", "enum-z"},
	}
	n := 3
	if param("four") == 1 {
		n = 3 + symChoice(2)
	}
	body := ""
	var sigs []string
	bad := false
	for i := 0; i < n; i++ {
		o := opts[symChoice(len(opts))]
		body += o.text + " "
		if o.sig == "ERR" {
			bad = true
			continue
		}
		dup := false
		for _, s := range sigs {
			if s == o.sig {
				dup = true
			}
		}
		if !dup {
			sigs = append(sigs, o.sig)
		}
	}
	derived := symBool() // the union is reached through one more typedef level
	m := `module m { namespace "urn:m"; prefix m; typedef host { type string; } typedef label { type string; } typedef pat { type string { pattern "p"; } } typedef u { type union { ` + body + `} } typedef u2 { type u; } leaf l { type `
	if derived {
		m += `u2; } }`
	} else {
		m += `u; } }`
	}
	note(m)
	ms, lerrs := hLoad(m)
	check(len(lerrs) == 0, "module parses")
	errs := ms.Process()
	if len(errs) > 0 {
		reach("rejected")
		check(bad, "a union over known member types resolves without error")
		return
	}
	reach("resolved")
	check(!bad, "an unknown member type of a union is an error")
	e := ToEntry(ms.Modules["m"]).Dir["l"]
	check(e != nil && e.Type != nil && e.Type.Kind == Yunion, "the leaf is a union")
	if e == nil || e.Type == nil {
		return
	}
	check(len(e.Type.Type) == len(sigs), "the union carries every member of the chain (structurally identical ones once)")
	if len(e.Type.Type) == len(sigs) {
		for i, sg := range sigs {
			got := e.Type.Type[i]
			switch sg {
			case "string":
				check(got.Kind == Ystring && len(got.Pattern) == 0, "members keep their written order")
			case "string-pattern":
				check(got.Kind == Ystring && len(got.Pattern) == 1, "members keep their written order")
			case "int8":
				check(got.Kind == Yint8, "members keep their written order")
			case "uint32":
				check(got.Kind == Yuint32, "members keep their written order")
			case "enum":
				check(got.Kind == Yenum && got.Enum != nil && len(got.Enum.NameMap()) == 2, "members keep their written order")
			case "enum-z":
				check(got.Kind == Yenum && got.Enum != nil && len(got.Enum.NameMap()) == 1, "members keep their written order")
			case "bits-p":
				check(got.Kind == Ybits && got.Bit != nil && len(got.Bit.NameMap()) == 1, "members keep their written order")
			case "bits-qr":
				check(got.Kind == Ybits && got.Bit != nil && len(got.Bit.NameMap()) == 2, "members keep their written order")
			}
		}
	}
}

// H09d: what a derivation chain hands on besides units/default/pattern/length (H09b): the base
// kind and the enum set, bit set, fraction-digits (with the range that follows from them), leafref
// path and union members, through 1..3 typedef levels, each level with or without units and a
// default of its own (nearest wins), seen from a leaf with or without a default of its own
// (DefaultValues: the leaf's, else the type's).
func H09d() {
	kind := symChoice(5)
	depth := 1 + symChoice(3)
	dig := func() byte {
		d := symByte()
		assume(d >= '1')
		assume(d <= '9')
		return d
	}
	var base, defval string
	var v1, v2 byte
	fd := 0
	switch kind {
	case 0:
		v1 = dig()
		base = `type enumeration { enum a; enum b { value ` + string([]byte{v1}) + `; } enum c; }`
		defval = "b"
	case 1:
		v1 = dig()
		base = `type bits { bit x; bit y { position ` + string([]byte{v1}) + `; } bit z; }`
		defval = "y"
	case 2:
		fd = symRange(1, 18)
		v2 = dig()
		base = `type decimal64 { fraction-digits ` + hItoa(int64(fd)) + `; range "-` + string([]byte{v2}) + `..` + string([]byte{v2}) + `"; }`
		defval = "1"
	case 3:
		base = `type leafref { path "/m:tgt"; }`
		defval = "q"
	case 4:
		base = `type union { type int8; type string { pattern "pu"; } type enumeration { enum k; } }`
		defval = "k"
	}
	type lvl struct{ units, def bool }
	var l [3]lvl
	src := `module m { namespace "urn:m"; prefix m; leaf tgt { type string; } `
	prev := ""
	for i := 0; i < depth; i++ {
		l[i] = lvl{symBool(), symBool()}
		name := "t" + string([]byte{'1' + byte(i)})
		src += `typedef ` + name + ` { `
		if i == 0 {
			src += base
		} else {
			src += `type ` + prev + `;`
		}
		if l[i].units {
			src += ` units "u` + string([]byte{'1' + byte(i)}) + `";`
		}
		if l[i].def {
			src += ` default "` + defval + `";`
		}
		src += ` } `
		prev = name
	}
	leafDef := symBool()
	src += `leaf x { type ` + prev + `;`
	if leafDef {
		src += ` default "` + defval + defval + `";`
	}
	src += ` } }`
	note(src)
	ms, lerrs := hLoad(src)
	check(len(lerrs) == 0, "the module parses")
	errs := ms.Process()
	check(len(errs) == 0, "the module processes")
	if len(errs) > 0 {
		return
	}
	reach("resolved")
	e := ToEntry(ms.Modules["m"]).Dir["x"]
	check(e != nil && e.Type != nil, "leaf resolved")
	if e == nil || e.Type == nil {
		return
	}
	t := e.Type
	units, hasDef := "", false
	for i := 0; i < depth; i++ {
		if l[i].units {
			units = "u" + string([]byte{'1' + byte(i)})
		}
		if l[i].def {
			hasDef = true
		}
	}
	check(t.Units == units, "units: nearest definition in the chain wins")
	check(t.HasDefault == hasDef, "default: carried by the chain exactly when some level defines one")
	if hasDef {
		check(t.Default == defval, "default: the chain's value")
	}
	dv := e.DefaultValues()
	switch {
	case leafDef:
		check(len(dv) == 1 && dv[0] == defval+defval, "DefaultValues: the leaf's own default wins over the type's")
	case hasDef:
		check(len(dv) == 1 && dv[0] == defval, "DefaultValues: the type's default when the leaf has none")
	default:
		check(len(dv) == 0, "DefaultValues: none anywhere")
	}
	check(t.Name == prev, "the resolved type is named as referenced")
	switch kind {
	case 0:
		check(t.Kind == Yenum, "base kind of the chain")
		check(t.Enum != nil, "enum set of the chain")
		if t.Enum != nil {
			nm := t.Enum.NameMap()
			w := int64(v1 - '0')
			check(len(nm) == 3 && nm["a"] == 0 && nm["b"] == w && nm["c"] == w+1, "enum set of the chain: names and values")
			check(t.Enum.ValueMap()[w] == "b", "enum set of the chain: value view")
		}
		check(t.Bit == nil && len(t.Type) == 0 && t.Path == "", "nothing else is carried")
	case 1:
		check(t.Kind == Ybits, "base kind of the chain")
		check(t.Bit != nil, "bit set of the chain")
		if t.Bit != nil {
			nm := t.Bit.NameMap()
			w := int64(v1 - '0')
			check(len(nm) == 3 && nm["x"] == 0 && nm["y"] == w && nm["z"] == w+1, "bit set of the chain: names and positions")
		}
		check(t.Enum == nil && len(t.Type) == 0 && t.Path == "", "nothing else is carried")
	case 2:
		check(t.Kind == Ydecimal64, "base kind of the chain")
		check(t.FractionDigits == fd, "fraction-digits of the chain")
		check(len(t.Range) == 1, "range of the chain")
		if len(t.Range) == 1 {
			mant := mMulPow10(mU(uint64(v2-'0')), fd)
			check(mEq(h10Val(t.Range[0].Min), mNeg(mant)) && mEq(h10Val(t.Range[0].Max), mant), "range of the chain, scaled to its fraction-digits")
			check(int(t.Range[0].Min.FractionDigits) == fd && int(t.Range[0].Max.FractionDigits) == fd, "range bounds carry the fraction-digits")
		}
	case 3:
		check(t.Kind == Yleafref, "base kind of the chain")
		check(t.Path == "/m:tgt", "path of the chain")
	case 4:
		check(t.Kind == Yunion, "base kind of the chain")
		check(len(t.Type) == 3, "union members of the chain")
		if len(t.Type) == 3 {
			check(t.Type[0].Kind == Yint8 && t.Type[1].Kind == Ystring && t.Type[2].Kind == Yenum, "union members in written order")
			check(len(t.Type[1].Pattern) == 1 && t.Type[1].Pattern[0] == "pu", "union member keeps its restriction")
			check(t.Type[2].Enum != nil && t.Type[2].Enum.Value("k") == 0 && len(t.Type[2].Enum.NameMap()) == 1, "union member keeps its enum set")
		}
	}
}

// H09e: units and default along a chain string <- t1 <- t2 <- t3 <- leaf, each level with no
// statement, a non-empty value or the empty string (which is a value like any other): the nearest
// statement wins.
func H09e() {
	type lvl struct{ units, def int } // 0 absent, 1 value, 2 empty string
	var l [3]lvl
	src := `module m { namespace "urn:m"; prefix m; `
	prev := "string"
	units, def, hasDef := "", "", false
	for i := range l {
		l[i] = lvl{symChoice(3), symChoice(3)}
		idx := string([]byte{'1' + byte(i)})
		src += `typedef t` + idx + ` { type ` + prev + `;`
		switch l[i].units {
		case 1:
			src += ` units "u` + idx + `";`
			units = "u" + idx
		case 2:
			src += ` units "";`
			units = ""
		}
		switch l[i].def {
		case 1:
			src += ` default "d` + idx + `";`
			def, hasDef = "d"+idx, true
		case 2:
			src += ` default "";`
			def, hasDef = "", true
		}
		src += ` } `
		prev = "t" + idx
	}
	src += `leaf x { type t3; } }`
	note(src)
	ms, lerrs := hLoad(src)
	check(len(lerrs) == 0, "the module parses")
	errs := ms.Process()
	check(len(errs) == 0, "the module processes")
	if len(errs) > 0 {
		return
	}
	reach("resolved")
	e := ToEntry(ms.Modules["m"]).Dir["x"]
	check(e != nil && e.Type != nil, "leaf resolved")
	if e == nil || e.Type == nil {
		return
	}
	check(e.Type.Units == units, "units: nearest definition in the chain wins (the empty string is a value)")
	check(e.Type.HasDefault == hasDef && e.Type.Default == def, "default: nearest definition in the chain wins (the empty string is a value)")
	dv := e.DefaultValues()
	if hasDef {
		check(len(dv) == 1 && dv[0] == def, "DefaultValues: the type's default")
	} else {
		check(len(dv) == 0, "DefaultValues: none")
	}
}

// H09two: two references to (possibly) the same name from different scopes of one module: the
// binding of each is what its own scope chain says, whatever was resolved before it. The
// submodule s defines typedef a (int16) at its top; container c and grouping g may define
// typedefs named a or b (int32, int64); one leaf at the top of the module and one leaf inside c,
// inside g (used in u) or at the top again refer to a symbolic name, in either written order.
func H09two() {
	nm := func() byte {
		b := symByte()
		assume(symOr(b == 'a', b == 'b'))
		return b
	}
	cPresent, gPresent := symBool(), symBool()
	cName, gName := nm(), nm()
	r1, r2 := nm(), nm()
	site2 := symChoice(3) // 0 in container c, 1 in grouping g, 2 at the top
	leaf1 := "leaf ref1 { type " + string([]byte{r1}) + "; } "
	leaf2 := "leaf ref2 { type " + string([]byte{r2}) + "; } "
	at := func(k int) string {
		if site2 == k {
			return leaf2
		}
		return ""
	}
	body := `container c { ` + h09Typedef(sCont, cPresent, cName) + at(0) + `} ` +
		`grouping g { ` + h09Typedef(sGrp, gPresent, gName) + at(1) + `} container u { uses g; } ` + at(2)
	if symBool() {
		body = leaf1 + body
	} else {
		body = body + leaf1
	}
	m := `module m { namespace "urn:m"; prefix m; include s; ` + body + `}`
	s := `submodule s { belongs-to m { prefix m; } typedef a { type int16; } }`
	note(m)
	ms, lerrs := hLoad(m, s)
	check(len(lerrs) == 0, "the modules parse")
	errs := ms.Process()
	// reference binder
	ok1 := r1 == 'a'
	inner2 := false
	switch site2 {
	case 0:
		inner2 = symAnd(cPresent, cName == r2)
	case 1:
		inner2 = symAnd(gPresent, gName == r2)
	}
	ok2 := symOr(inner2, r2 == 'a')
	if len(errs) > 0 {
		reach("rejected")
		check(symNot(symAnd(ok1, ok2)), "type references that bind to a typedef are resolved without error")
		return
	}
	reach("resolved")
	check(symAnd(ok1, ok2), "an unknown type reference is an error")
	em := ToEntry(ms.Modules["m"])
	e1 := em.Dir["ref1"]
	var e2 *Entry
	switch site2 {
	case 0:
		e2 = em.Dir["c"].Dir["ref2"]
	case 1:
		e2 = em.Dir["u"].Dir["ref2"]
	case 2:
		e2 = em.Dir["ref2"]
	}
	check(e1 != nil && e1.Type != nil && e2 != nil && e2.Type != nil, "both leaves resolved")
	if e1 == nil || e1.Type == nil || e2 == nil || e2.Type == nil {
		return
	}
	check(e1.Type.Kind == Yint16, "the reference at the top denotes the submodule's typedef")
	want2 := Yint16
	if inner2 {
		want2 = h09Kinds[sCont]
		if site2 == 1 {
			want2 = h09Kinds[sGrp]
		}
	}
	check(e2.Type.Kind == want2, "a reference denotes the typedef in the nearest enclosing scope of the referencing statement, whatever another reference to the same name resolved to")
}

// H09s: the remaining scopes a typedef can be declared in - list, rpc output, notification,
// action input and output (YANG 1.1), a grouping nested in a grouping: a typedef named a or b
// (symbolic) at one of these scopes shadows the module-level typedef a for a reference inside
// the scope and is invisible to a reference next to the scope.
func H09s() {
	nb := symByte()
	assume(symOr(nb == 'a', nb == 'b'))
	rb := symByte()
	assume(symOr(rb == 'a', rb == 'b'))
	td := "typedef " + string([]byte{nb}) + " { type int32; } "
	in := "leaf rin { type " + string([]byte{rb}) + "; } "
	site := symChoice(6)
	var scoped string
	switch site {
	case 0:
		scoped = "list li { key k; leaf k { type string; } " + td + in + "} "
	case 1:
		scoped = "rpc r { output { " + td + in + "} } "
	case 2:
		scoped = "notification nt { " + td + in + "} "
	case 3:
		scoped = "container ca { action act { input { " + td + in + "} } } "
	case 4:
		scoped = "container ca { action act { output { " + td + in + "} } } "
	case 5:
		scoped = "grouping go { grouping gi { " + td + in + "} uses gi; } container cg { uses go; } "
	}
	m := `module m { yang-version 1.1; namespace "urn:m"; prefix m; typedef a { type int8; } ` + scoped + `leaf rout { type ` + string([]byte{rb}) + `; } }`
	note(m)
	ms, lerrs := hLoad(m)
	check(len(lerrs) == 0, "the module parses")
	errs := ms.Process()
	okIn := symOr(rb == 'a', nb == rb)
	okOut := rb == 'a'
	if len(errs) > 0 {
		reach("rejected")
		check(symNot(symAnd(okIn, okOut)), "type references that bind to a typedef are resolved without error")
		return
	}
	reach("resolved")
	check(symAnd(okIn, okOut), "an unknown type reference is an error")
	em := ToEntry(ms.Modules["m"])
	var rin *Entry
	switch site {
	case 0:
		rin = em.Dir["li"].Dir["rin"]
	case 1:
		rin = em.Dir["r"].RPC.Output.Dir["rin"]
	case 2:
		rin = em.Dir["nt"].Dir["rin"]
	case 3:
		rin = em.Dir["ca"].Dir["act"].RPC.Input.Dir["rin"]
	case 4:
		rin = em.Dir["ca"].Dir["act"].RPC.Output.Dir["rin"]
	case 5:
		rin = em.Dir["cg"].Dir["rin"]
	}
	rout := em.Dir["rout"]
	check(rin != nil && rin.Type != nil && rout != nil && rout.Type != nil, "both leaves resolved")
	if rin == nil || rin.Type == nil || rout == nil || rout.Type == nil {
		return
	}
	wantIn := Yint8
	if nb == rb {
		wantIn = Yint32
	}
	check(rin.Type.Kind == wantIn, "a reference inside a list, output, notification, action input/output or nested grouping denotes the typedef of that scope before the module's")
	check(rout.Type.Kind == Yint8, "a typedef declared in an inner scope is invisible outside it")
}

// H09bi: built-in names are unprefixed. A reference spelled prefix:NAME with NAME a built-in
// type name and the prefix the module's own, an import's or an unknown one is a reference to a
// typedef of that module, which cannot exist: an error. Unprefixed it is the built-in type.
func H09bi() {
	names := []string{"string", "int8", "uint8", "boolean", "int32", "binary", "empty"}
	kinds := []TypeKind{Ystring, Yint8, Yuint8, Ybool, Yint32, Ybinary, Yempty}
	k := symChoice(len(names))
	pre := []string{"", "m:", "px:", "zz:"}[symChoice(4)]
	site := symChoice(2)
	ref := "type " + pre + names[k] + ";"
	body := "leaf l { " + ref + " }"
	if site == 1 {
		body = "typedef t { " + ref + " } leaf l { type t; }"
	}
	m := `module m { namespace "urn:m"; prefix m; import x { prefix px; } ` + body + ` }`
	x := `module x { namespace "urn:x"; prefix x; typedef other { type string; } }`
	note(m)
	ms, lerrs := hLoad(m, x)
	check(len(lerrs) == 0, "the modules parse")
	errs := ms.Process()
	if len(errs) > 0 {
		reach("rejected")
		check(pre != "", "an unprefixed built-in name denotes the built-in type")
		return
	}
	reach("resolved")
	check(pre == "", "a prefixed name denotes a typedef of the module behind the prefix - never a built-in type: unknown, an error")
	e := ToEntry(ms.Modules["m"]).Dir["l"]
	check(e != nil && e.Type != nil && e.Type.Kind == kinds[k], "built-in names denote the built-in types")
}
