package yang

// C05 - same sources and options give the same result, whatever the load order.
// The whole pipeline is run several times inside one path on fresh module sets that differ
// only in what must not matter: the load order (a symbolic permutation) and the iteration
// order of the library's internal maps, which the engine treats as a symbolic choice at every
// range over a matching map (at most the budgeted number of range events per path deviate from
// insertion order, each over every permutation of a map with up to 4 entries; DESIGN 2.4).
// Natively (replay) map order cannot be chosen: the run is repeated many times instead.

func h05Outcome(texts []string, order []int) string {
	hNoFiles()
	ms := NewModules()
	for _, k := range order {
		if err := ms.Parse(texts[k], "f"+string([]byte{'0' + byte(k)})+".yang"); err != nil {
			return "load error: " + err.Error()
		}
	}
	errs := ms.Process()
	if len(errs) > 0 {
		// the error list must come back sorted by file, line, column and duplicate-free
		return "errors:\n" + hErrs(errs)
	}
	return hDump(ms)
}

var h05Orders = [][]int{{0, 1, 2, 3}, {3, 2, 1, 0}, {1, 0, 3, 2}, {2, 3, 0, 1}, {1, 2, 3, 0}, {3, 0, 1, 2}}

func h05Schemas() [][]string {
	return [][]string{
		// same-named identities in modules that even share their prefix, derived from one base
		{`module r { namespace "urn:r"; prefix r; identity base; leaf l { type identityref { base base; } } }`,
			`module a { namespace "urn:a"; prefix p; import r { prefix r; } identity x { base r:base; } }`,
			`module b { namespace "urn:b"; prefix p; import r { prefix r; } identity x { base r:base; } }`,
			`module c { namespace "urn:c"; prefix p; import r { prefix r; } identity x { base r:base; } }`},
		// augments from several modules, chained, onto a choice (implicit cases) and colliding
		{`module m { namespace "urn:m"; prefix m; container c { choice ch { leaf s1 { type string; } } } }`,
			`module a1 { namespace "urn:a1"; prefix a1; import m { prefix m; } augment /m:c { container d { leaf x { type string; } } } augment /m:c/m:ch { leaf s2 { type string; } } }`,
			`module a2 { namespace "urn:a2"; prefix a2; import m { prefix m; } import a1 { prefix a1; } augment /m:c/a1:d { leaf y { type int8; } } }`,
			`module a3 { namespace "urn:a3"; prefix a3; import m { prefix m; } import a1 { prefix a1; } augment /m:c/a1:d { leaf z { type string; } } }`},
		// several independent errors in several modules: the list must be the same, sorted, every run
		{`module e1 { namespace "urn:e1"; prefix e1; typedef t1 { type nosuch1; } typedef t2 { type nosuch2; } leaf l { type string; } }`,
			`module e2 { namespace "urn:e2"; prefix e2; typedef u1 { type e2:u2; } typedef u2 { type u1; } }`,
			`module e3 { namespace "urn:e3"; prefix e3; leaf a { type int8 { range "9..1"; } } leaf b { type bogus; } uses nosuch; }`,
			`module e4 { namespace "urn:e4"; prefix e4; identity i { base nosuch; } }`},
		// two augmenting modules adding the same two names (two collisions in one merge): what is reported must not depend on order
		{`module m { namespace "urn:m"; prefix m; container c { leaf k { type string; } } }`,
			`module a { namespace "urn:a"; prefix a; import m { prefix m; } augment /m:c { leaf x { type string; } leaf y { type string; } } }`,
			`module b { namespace "urn:b"; prefix b; import m { prefix m; } augment /m:c { leaf x { type int8; } leaf y { type int8; } leaf z { type int8; } } }`,
			`module z { namespace "urn:z"; prefix z; }`},
		// typedef cycles that close through union members; a chain of imports with two missing modules
		{`module ta { namespace "urn:ta"; prefix ta; typedef A { type union { type B; type string; } } typedef B { type union { type A; type int8; } } }`,
			`module ia { namespace "urn:ia"; prefix ia; import ib { prefix ib; } import missing-d { prefix d; } }`,
			`module ib { namespace "urn:ib"; prefix ib; import missing-c { prefix c; } }`,
			`module zz { namespace "urn:zz"; prefix zz; }`},
		// independently created errors with identical text (two importers of one missing module, the
		// same bad augment retried in every pass) and errors on lines 9, 10 and 11 (numeric order)
		{`module i1 { namespace "urn:i1"; prefix i1; import missing { prefix a; } }`,
			`module i2 { namespace "urn:i2"; prefix i2; import missing { prefix b; } }`,
			`module i3 { namespace "urn:i3"; prefix i3; container c; augment /zz:c { leaf x { type string; } } augment /i3:c/i3:nosuch { leaf y { type string; } } }`,
			"module i4 { namespace \"urn:i4\"; prefix i4;\n\n\n\n\n\n\n\n leaf l9 { type no9; }\n leaf l10 { type no10; }\n   leaf l11 { type no11; } leaf l11b { type no11b; } }"},
		// two revisions of one module that both define the identity a third module derives from
		{`module idm { namespace "urn:idm"; prefix idm; revision 2020-01-01; identity ID; }`,
			`module idm { namespace "urn:idm"; prefix idm; revision 2021-01-01; identity ID; identity EXTRA { base ID; } }`,
			`module idu { namespace "urn:idu"; prefix idu; import idm { prefix m; } identity CHILD { base m:ID; } leaf l { type identityref { base m:ID; } } }`,
			`module idz { namespace "urn:idz"; prefix idz; }`},
		// two revisions of one module and importers, deviations with several deviate kinds
		{`module lib { namespace "urn:lib"; prefix lib; revision 2019-01-01; typedef t { type int8; } leaf v { type t; default 1; } }`,
			`module lib { namespace "urn:lib"; prefix lib; revision 2020-01-01; typedef t { type int16; } leaf v { type t; default 2; } leaf-list ll { type string; max-elements 4; } }`,
			`module u { namespace "urn:u"; prefix u; import lib { prefix lib; } leaf w { type lib:t; } }`,
			`module d { namespace "urn:d"; prefix d; import lib { prefix lib; } deviation /lib:v { deviate delete { default 2; } deviate add { default 3; } deviate replace { type string; } } deviation /lib:ll { deviate replace { max-elements 2; } deviate add { min-elements 1; } } }`},
	}
}

// H05: one schema (symbolic choice), first run in written load order and insertion map order;
// further runs in a symbolically chosen load order, map-order choices free in all runs.
func H05() {
	schemas := h05Schemas()
	texts := schemas[symChoice(len(schemas))]
	first := h05Outcome(texts, h05Orders[0])
	order := h05Orders[symChoice(param("orders"))]
	runs := 2
	if !inEngine() {
		runs = 150 // native replay: the runtime picks the map orders
	}
	reach("compared")
	for i := 1; i < runs; i++ {
		check(h05Outcome(texts, order) == first, "the outcome (error list, or trees with types, defaults, identity lists, augments, deviations) is identical across runs, load orders and map iteration orders")
	}
	// error lists are sorted by file, line, column and free of duplicates
	if len(first) > 7 && first[:7] == "errors:" {
		lines := []string{}
		cur := ""
		for i := 8; i < len(first); i++ {
			if first[i] == '\n' {
				lines = append(lines, cur)
				cur = ""
			} else {
				cur += string([]byte{first[i]})
			}
		}
		prevTop := -1
		for i := 0; i < len(lines); i++ {
			for j := 0; j < i; j++ {
				check(lines[i] != lines[j], "error lists come back with duplicates removed")
			}
			// (a line that begins with a blank continues the message above it)
			if len(lines[i]) == 0 || lines[i][0] == ' ' {
				continue
			}
			if prevTop >= 0 {
				fa, la, ca, oka := h05Pos(lines[prevTop])
				fb, lb, cb, okb := h05Pos(lines[i])
				if oka && okb {
					check(fa < fb || (fa == fb && (la < lb || (la == lb && ca <= cb))), "error lists come back ordered by file, line and column")
				}
			}
			prevTop = i
		}
	}
}

// h05Pos reads a leading file:line:col (numbers in decimal).
func h05Pos(s string) (file string, line, col int, ok bool) {
	i := 0
	for i < len(s) && s[i] != ':' {
		i++
	}
	file = s[:i]
	num := func() (int, bool) {
		i++
		n, any := 0, false
		for i < len(s) && s[i] >= '0' && s[i] <= '9' {
			n = n*10 + int(s[i]-'0')
			i++
			any = true
		}
		return n, any && i < len(s) && s[i] == ':'
	}
	var ok1, ok2 bool
	line, ok1 = num()
	if !ok1 {
		return file, 0, 0, false
	}
	col, ok2 = num()
	return file, line, col, ok2
}

// H05sort: the error sorter itself on k messages "F.yang:L:C: M" with a symbolic file letter,
// symbolic one- or two-digit line and column numbers and a symbolic message letter (so equal
// texts arise): the result is strictly ascending by (file, line as a number, column as a number,
// message), holds every distinct message once and nothing else.
func H05sort() {
	k := param("k")
	var errs []error
	var texts []string
	num := func() string {
		d1 := symByte()
		assume(d1 >= '1')
		assume(d1 <= '9')
		if symBool() {
			d2 := symByte()
			assume(d2 >= '0')
			assume(d2 <= '9')
			return string([]byte{d1, d2})
		}
		return string([]byte{d1})
	}
	for i := 0; i < k; i++ {
		f := symByte()
		assume(f >= 'a')
		assume(f <= 'b')
		m := symByte()
		assume(m >= 'x')
		assume(m <= 'y')
		t := string([]byte{f}) + ".yang:" + num() + ":" + num() + ": " + string([]byte{m})
		texts = append(texts, t)
		errs = append(errs, errorString(t))
	}
	out := errorSort(errs)
	reach("sorted")
	check(len(out) >= 1 && len(out) <= k, "no more messages than were given")
	var got []string
	for _, e := range out {
		got = append(got, e.Error())
	}
	for i := 1; i < len(got); i++ {
		fa, la, ca, oka := h05Pos(got[i-1])
		fb, lb, cb, okb := h05Pos(got[i])
		check(oka && okb, "harness: positions readable")
		ma, mb := got[i-1][len(got[i-1])-1], got[i][len(got[i])-1]
		check(fa < fb || (fa == fb && (la < lb || (la == lb && (ca < cb || (ca == cb && ma < mb))))),
			"error lists come back ordered by file, line and column (numerically), duplicates removed")
	}
	for _, t := range texts {
		n := 0
		for _, g := range got {
			if g == t {
				n++
			}
		}
		check(n == 1, "every distinct message is reported exactly once")
	}
}
