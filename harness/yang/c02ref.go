package yang

// Reference reader for C02/C16: an independent reading of RFC 7950 section 6 written from the
// property text. It shares no mechanism with lex.go/parse.go: no cursor state, no tab-column
// bookkeeping, no push-back of look-ahead; the value of a double-quoted string is computed from
// the raw literal split into lines. It is written with plain byte loops so that it runs both
// natively and in the symbolic executor on texts whose bytes are symbolic.
// (Prototype validated natively against the unchanged implementation, DESIGN Appendix E.)

type rTok struct {
	kind byte // 'u' unquoted, 'q' quoted, ';', '{', '}'
	text string
	pos  int // byte offset of the first character
}

type rStmt struct {
	kw     string
	hasArg bool
	arg    string
	kids   []*rStmt
	pos    int
}

// outcome classes of the reference
const (
	rOK        = 0
	rReject    = 1 // not well-formed; pos/kind say which token is at fault when that is determined
	rAmbiguous = 2 // one of the four constructs the property leaves outside the claim
)

type rErr struct {
	code int
	pos  int    // offset of the token / backslash / opener at fault, -1 if none is claimed
	kind string // comment, squote, dquote, escape, keyword, term, brace, eof
}

func rBlank(c byte) bool { return c == ' ' || c == '\t' || c == '\r' || c == '\n' }

func rDelim(c byte) bool {
	return c == ' ' || c == '\t' || c == '\r' || c == '\n' || c == '"' || c == '\'' || c == ';' || c == '{' || c == '}'
}

func rHasAt(s string, i int, a, b byte) bool { return i+1 < len(s) && s[i] == a && s[i+1] == b }

// rTabCol is the 0-based column of offset p with a tab advancing to the next multiple of 8.
func rTabCol(s string, p int) int {
	ls := p
	for ls > 0 && s[ls-1] != '\n' {
		ls--
	}
	col := 0
	for i := ls; i < p; i++ {
		c := s[i]
		if c == '\t' {
			col = (col/8 + 1) * 8
		} else if c < 0x80 || c >= 0xC0 { // not a UTF-8 continuation byte: one character
			col++
		}
	}
	return col
}

// rLineCol is the 1-based line and the 1-based column, in characters, of offset p.
func rLineCol(s string, p int) (int, int) {
	line, col := 1, 1
	for i := 0; i < p; i++ {
		c := s[i]
		if c == '\n' {
			line++
			col = 1
		} else if c < 0x80 || c >= 0xC0 {
			col++
		}
	}
	return line, col
}

// rDQEnd returns the offset of the quote closing the double-quoted literal opened at q, or -1.
func rDQEnd(s string, q int) int {
	for i := q + 1; i < len(s); i++ {
		if s[i] == '\\' {
			i++
			continue
		}
		if s[i] == '"' {
			return i
		}
	}
	return -1
}

// rFirstBadEscape returns the offset of the first backslash in s[from:to] that starts an escape
// other than \n \t \" \\ (a backslash before a line break included), or -1.
func rFirstBadEscape(s string, from, to int) int {
	for i := from; i < to; i++ {
		if s[i] != '\\' {
			continue
		}
		if i+1 >= to {
			return -1
		}
		c := s[i+1]
		if c != 'n' && c != 't' && c != '"' && c != '\\' {
			return i
		}
		i++
	}
	return -1
}

// rDQValue computes the value of the double-quoted literal s[q..e] (quotes at q and e).
func rDQValue(s string, q, e int, inPattern bool) (string, *rErr) {
	qcol := rTabCol(s, q)
	multi := false
	for i := q + 1; i < e; i++ {
		if s[i] == '\n' {
			multi = true
		}
	}
	var out []byte
	ls := q + 1 // start of the current line of the body
	first := true
	for {
		le := ls
		for le < e && s[le] != '\n' {
			le++
		}
		last := le == e
		// CR LF line ends inside a multi-line string are outside the claim
		if multi {
			for i := ls; i < le; i++ {
				if s[i] == '\r' {
					return "", &rErr{code: rAmbiguous}
				}
			}
		}
		i := ls
		if !first {
			// strip the indentation of a continuation line up to and including the quote column
			col := 0
			for i < le && (s[i] == ' ' || s[i] == '\t') {
				nc := col + 1
				if s[i] == '\t' {
					nc = (col/8 + 1) * 8
				}
				if nc > qcol+1 {
					if s[i] == '\t' && col < qcol+1 {
						return "", &rErr{code: rAmbiguous} // a tab straddles the strip column
					}
					break
				}
				col = nc
				i++
			}
		}
		lineStart := len(out)
		lastFromEscape := false
		for ; i < le; i++ {
			c := s[i]
			lastFromEscape = false
			if c != '\\' {
				out = append(out, c)
				continue
			}
			if i+1 >= le {
				// a backslash directly before the line break: an escape of LF, which is unknown
				if !inPattern {
					return "", &rErr{code: rReject, pos: i, kind: "escape"}
				}
				// inside a pattern the backslash is kept, but whether the line break after it is
				// still subject to blank stripping is not determined by the property: outside
				return "", &rErr{code: rAmbiguous}
			}
			i++
			switch s[i] {
			case 'n':
				out = append(out, '\n')
				lastFromEscape = true
			case 't':
				out = append(out, '\t')
				lastFromEscape = true
			case '"':
				out = append(out, '"')
			case '\\':
				out = append(out, '\\')
			default:
				if !inPattern {
					return "", &rErr{code: rReject, pos: i - 1, kind: "escape"}
				}
				out = append(out, '\\', s[i])
			}
		}
		if last {
			break
		}
		// strip blanks before the line break
		if lastFromEscape && len(out) > lineStart && out[len(out)-1] == '\t' {
			return "", &rErr{code: rAmbiguous} // blank produced by an escape right before the break
		}
		j := len(out)
		for j > lineStart && (out[j-1] == ' ' || out[j-1] == '\t') {
			j--
		}
		if j < len(out) {
			// the stripped run may not contain a blank that an escape produced
			r := le
			for r > ls && (s[r-1] == ' ' || s[r-1] == '\t') {
				r--
			}
			if r-2 >= ls && s[r-2] == '\\' && s[r-1] == 't' {
				return "", &rErr{code: rAmbiguous}
			}
		}
		out = append(out[:j], '\n')
		ls = le + 1
		first = false
	}
	return string(out), nil
}

type rLexer struct {
	s   string
	pos int
}

// next returns the next token (nil at end of text).
func (l *rLexer) next(pattern bool) (*rTok, *rErr) {
	s := l.s
	for l.pos < len(s) {
		c := s[l.pos]
		if rBlank(c) {
			l.pos++
		} else if rHasAt(s, l.pos, '/', '/') {
			for l.pos < len(s) && s[l.pos] != '\n' {
				l.pos++
			}
		} else if rHasAt(s, l.pos, '/', '*') {
			i := l.pos + 2
			for i < len(s) && !rHasAt(s, i, '*', '/') {
				i++
			}
			if i >= len(s) {
				return nil, &rErr{code: rReject, pos: l.pos, kind: "comment"}
			}
			l.pos = i + 2
		} else {
			break
		}
	}
	if l.pos >= len(s) {
		return nil, nil
	}
	p := l.pos
	c := s[p]
	if c == ';' || c == '{' || c == '}' {
		l.pos++
		return &rTok{kind: c, pos: p}, nil
	}
	if c == '\'' {
		i := p + 1
		for i < len(s) && s[i] != '\'' {
			i++
		}
		if i >= len(s) {
			return nil, &rErr{code: rReject, pos: p, kind: "squote"}
		}
		l.pos = i + 1
		return &rTok{kind: 'q', text: s[p+1 : i], pos: p}, nil
	}
	if c == '"' {
		e := rDQEnd(s, p)
		if e < 0 {
			// reading order: an invalid escape inside the unterminated literal comes first
			if !pattern {
				if b := rFirstBadEscape(s, p+1, len(s)); b >= 0 {
					return nil, &rErr{code: rReject, pos: b, kind: "escape"}
				}
			}
			return nil, &rErr{code: rReject, pos: p, kind: "dquote"}
		}
		v, err := rDQValue(s, p, e, pattern)
		if err != nil {
			return nil, err
		}
		l.pos = e + 1
		return &rTok{kind: 'q', text: v, pos: p}, nil
	}
	e := p
	for e < len(s) && !rDelim(s[e]) {
		e++
	}
	// a comment opener inside an unquoted token is outside the claim
	for i := p + 1; i+1 < e; i++ {
		if s[i] == '/' && (s[i+1] == '/' || s[i+1] == '*') {
			return nil, &rErr{code: rAmbiguous}
		}
	}
	l.pos = e
	return &rTok{kind: 'u', text: s[p:e], pos: p}, nil
}

type rParser struct {
	l    *rLexer
	back []*rTok
}

func (p *rParser) tok(pattern bool) (*rTok, *rErr) {
	if n := len(p.back); n > 0 {
		t := p.back[n-1]
		p.back = p.back[:n-1]
		return t, nil
	}
	return p.l.next(pattern)
}

func rIsPlus(t *rTok) bool { return t.kind == 'u' && len(t.text) == 1 && t.text[0] == '+' }

// arg fetches a token and, if it is quoted, the `+`-joined quoted pieces that follow it.
func (p *rParser) arg(pattern bool) (*rTok, *rErr) {
	t, err := p.tok(pattern)
	if err != nil || t == nil || t.kind != 'q' {
		return t, err
	}
	for {
		plus, err := p.tok(pattern)
		if err != nil {
			return nil, err
		}
		if plus == nil {
			return t, nil
		}
		if !rIsPlus(plus) {
			p.back = append(p.back, plus)
			return t, nil
		}
		nx, err := p.tok(pattern)
		if err != nil {
			return nil, err
		}
		if nx == nil {
			p.back = append(p.back, plus)
			return t, nil
		}
		if nx.kind != 'q' {
			p.back = append(p.back, nx, plus)
			return t, nil
		}
		t = &rTok{kind: 'q', text: t.text + nx.text, pos: t.pos}
	}
}

func rIsPattern(s string) bool {
	return len(s) == 7 && s[0] == 'p' && s[1] == 'a' && s[2] == 't' && s[3] == 't' && s[4] == 'e' && s[5] == 'r' && s[6] == 'n'
}

// stmt parses one statement: (nil, false, nil) at end of text, closeBrace on `}`.
func (p *rParser) stmt() (st *rStmt, closeBrace *rTok, err *rErr) {
	t, err := p.arg(false)
	if err != nil {
		return nil, nil, err
	}
	if t == nil {
		return nil, nil, nil
	}
	if t.kind == '}' {
		return nil, t, nil
	}
	if t.kind != 'u' {
		return nil, nil, &rErr{code: rReject, pos: t.pos, kind: "keyword"}
	}
	st = &rStmt{kw: t.text, pos: t.pos}
	a, err := p.arg(rIsPattern(t.text))
	if err != nil {
		return nil, nil, err
	}
	if a != nil && (a.kind == 'q' || a.kind == 'u') {
		st.hasArg = true
		st.arg = a.text
		a, err = p.arg(false)
		if err != nil {
			return nil, nil, err
		}
	}
	if a == nil {
		return nil, nil, &rErr{code: rReject, pos: -1, kind: "eof"}
	}
	if a.kind == ';' {
		return st, nil, nil
	}
	if a.kind != '{' {
		return nil, nil, &rErr{code: rReject, pos: a.pos, kind: "term"}
	}
	for {
		k, cb, err := p.stmt()
		if err != nil {
			return nil, nil, err
		}
		if cb != nil {
			return st, nil, nil
		}
		if k == nil {
			return nil, nil, &rErr{code: rReject, pos: -1, kind: "eof"} // end of text inside a block
		}
		st.kids = append(st.kids, k)
	}
}

// rParse reads a whole text.
func rParse(s string) ([]*rStmt, *rErr) {
	p := &rParser{l: &rLexer{s: s}}
	var out []*rStmt
	for {
		st, cb, err := p.stmt()
		if err != nil {
			return nil, err
		}
		if cb != nil {
			return nil, &rErr{code: rReject, pos: cb.pos, kind: "brace"}
		}
		if st == nil {
			return out, nil
		}
		out = append(out, st)
	}
}
