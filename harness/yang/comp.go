package yang

// Composition universe shared by C12, C17, C04, C06, C07: a chain of nested data nodes in
// which every level is placed by a symbolically chosen composition operator (written inline,
// through a grouping and `uses`, by an `augment` from another module, inside a choice with an
// explicit or an implicit case) under a symbolically chosen top (module body, submodule body,
// rpc input, rpc output, notification), with an explicit `config` statement present or absent
// at every level. The generator tracks, from the source structure alone, where each node must
// end up, which module's text placed it there, and which explicit config statements lie on its
// path - the reference for the harnesses.

const (
	opDirect = iota
	opUses
	opAugment
	opChoiceCase  // choice ch { case cs { container } }
	opChoiceShort // choice ch { container }  (implicit case)
	opUsesNested  // grouping whose body uses another grouping that holds the node
	opAugment2    // augment written in a second augmenting module (b2), so that augments chain across three modules
	opAugmentSub  // augment written in the submodule s of the base module m, with the belongs-to prefix
	nOps
)

const (
	topModule = iota
	topSubmodule
	topRPCInput
	topRPCOutput
	topNotification
	topRPCInputImplicit  // rpc that writes no input: only an augment can put something there
	topRPCOutputImplicit // rpc that writes no output
	topActGrpInput       // input of an action that sits in a grouping of another module, used in container root (and root2)
	topActGrpOutput      // its output
	topActGrpImplicit    // the action writes neither: only an augment can fill the input of ONE of the two copies
	nTops
)

type hcLevel struct {
	extraKind int // last level only: 0 leaf, 1 leaf-list, 2 list - the node l<i> next to the next level
	extraCfg  int // its own config statement
	name  string
	op    int
	cfg   int      // 0 absent, 1 true, 2 false
	onChoice bool  // choice operators only: the config statement is written on the choice, not on the container
	ns    string   // module whose text placed the node in the tree: "m" or "a"
	steps []string // names from the tree root down to this node
	nsOf  []string // namespace module of every step
}

type hcSchema struct {
	top    int
	levels []*hcLevel
	texts  []string
	mBody  string
	sBody  string
	aBody  string
	bBody  string
	gBody  string
	ngrp   int
}

func hcCfgText(c int) string {
	switch c {
	case 1:
		return " config true;"
	case 2:
		return " config false;"
	}
	return ""
}

// hcB2Prefix is module b2's own prefix: its module name, or - valid YANG - the very string
// that module m uses as its prefix (b2 imports m under another prefix).
var hcB2Prefix = "b2"

// hcPath spells the absolute schema path of steps as seen from module `from`
// (a imports m as mm; b2 imports m as mm and a as aa; own prefix = module name, for b2 hcB2Prefix).
func hcPath(steps, nsOf []string, from string) string {
	p := ""
	for i, s := range steps {
		pre := nsOf[i]
		if pre == from && from == "b2" {
			pre = hcB2Prefix
		} else if pre != from {
			switch pre {
			case "m":
				pre = "mm"
			case "a":
				pre = "aa"
			}
		}
		p += "/" + pre + ":" + s
	}
	return p
}

// gen returns the text to embed in the body of level i-1 (or of the top) for level i.
// inG2 tells whether that body is written inside module g2 (a grouping body).
func (sc *hcSchema) gen(i int, inG2 bool) string {
	if i >= len(sc.levels) {
		return ""
	}
	lv := sc.levels[i]
	idx := string([]byte{'1' + byte(i)})
	inner := func(childInG2 bool) string {
		extra := "leaf l" + idx + " {" + hcCfgText(lv.extraCfg) + " type string; } "
		switch lv.extraKind {
		case 1:
			extra = "leaf-list l" + idx + " {" + hcCfgText(lv.extraCfg) + " type string; } "
		case 2:
			extra = "list l" + idx + " {" + hcCfgText(lv.extraCfg) + " key k; leaf k { type string; } } "
		}
		own := hcCfgText(lv.cfg)
		if lv.onChoice {
			own = ""
		}
		return "container " + lv.name + " {" + own + " " + extra + sc.gen(i+1, childInG2) + "}"
	}
	chCfg := ""
	if lv.onChoice {
		chCfg = hcCfgText(lv.cfg) + " "
	}
	usesText := func(g string) string {
		if inG2 {
			return "uses " + g + "; "
		}
		return "uses g2:" + g + "; "
	}
	switch lv.op {
	case opDirect:
		return inner(inG2) + " "
	case opChoiceCase:
		return "choice ch" + idx + " { " + chCfg + "case cs" + idx + " { " + inner(inG2) + " } } "
	case opChoiceShort:
		return "choice ch" + idx + " { " + chCfg + inner(inG2) + " } "
	case opUses:
		g := "g" + idx
		sc.gBody += "grouping " + g + " { " + inner(true) + " } "
		return usesText(g)
	case opUsesNested:
		g, h := "g"+idx, "h"+idx
		sc.gBody += "grouping " + h + " { " + inner(true) + " } grouping " + g + " { uses " + h + "; } "
		return usesText(g)
	case opAugmentSub:
		parentSteps, parentNs := []string{}, []string{}
		if i > 0 {
			parentSteps, parentNs = sc.levels[i-1].steps, sc.levels[i-1].nsOf
		} else {
			parentSteps, parentNs = sc.topSteps()
		}
		sc.sBody += "augment " + hcPath(parentSteps, parentNs, "m") + " { " + inner(false) + " } "
		return ""
	case opAugment, opAugment2:
		parentSteps, parentNs := []string{}, []string{}
		if i > 0 {
			parentSteps, parentNs = sc.levels[i-1].steps, sc.levels[i-1].nsOf
		} else {
			parentSteps, parentNs = sc.topSteps()
		}
		if lv.op == opAugment {
			sc.aBody += "augment " + hcPath(parentSteps, parentNs, "a") + " { " + inner(false) + " } "
		} else {
			sc.bBody += "augment " + hcPath(parentSteps, parentNs, "b2") + " { " + inner(false) + " } "
		}
		return ""
	}
	return ""
}

func (sc *hcSchema) topSteps() ([]string, []string) {
	switch sc.top {
	case topRPCInput, topRPCInputImplicit:
		return []string{"r", "input"}, []string{"m", "m"}
	case topRPCOutput, topRPCOutputImplicit:
		return []string{"r", "output"}, []string{"m", "m"}
	case topNotification:
		return []string{"nt"}, []string{"m"}
	case topActGrpInput, topActGrpImplicit:
		return []string{"root", "act", "input"}, []string{"m", "m", "m"}
	case topActGrpOutput:
		return []string{"root", "act", "output"}, []string{"m", "m", "m"}
	}
	return []string{"root"}, []string{"m"}
}

// hcSlim restricts the universe (deeper chains in the thorough tier): data tops only, four
// placement operators (inline, uses, augment from a, augment from b2), a plain leaf next to the
// last level.
var hcSlim bool

// hcNoCfg leaves every config statement out (harnesses whose property does not depend on config
// inheritance: the augment and lookup universes)
var hcNoCfg bool

var hcSlimOps = []int{opDirect, opUses, opAugment, opAugment2}

// hcGenerate draws a schema of n levels.
func hcGenerate(n int) *hcSchema {
	sc := &hcSchema{}
	hcB2Prefix = "b2"
	if hcSlim {
		sc.top = symChoice(2)
	} else {
		sc.top = symChoice(nTops)
	}
	dataTop := sc.top == topModule || sc.top == topSubmodule
	steps, nsOf := sc.topSteps()
	ctx := "m"
	for i := 0; i < n; i++ {
		lv := &hcLevel{name: "n" + string([]byte{'1' + byte(i)})}
		if hcSlim {
			lv.op = hcSlimOps[symChoice(len(hcSlimOps))]
		} else {
			lv.op = symChoice(nOps)
		}
		if dataTop && !hcNoCfg {
			lv.cfg = symChoice(3)
			if (lv.op == opChoiceCase || lv.op == opChoiceShort) && lv.cfg != 0 {
				lv.onChoice = symBool()
			}
		}
		if i == n-1 && !hcSlim {
			lv.extraKind = symChoice(3)
			if dataTop && !hcNoCfg {
				lv.extraCfg = symChoice(3)
			}
		}
		if i == 0 && (sc.top == topRPCInputImplicit || sc.top == topRPCOutputImplicit || sc.top == topActGrpImplicit) {
			assume(lv.op == opAugment || lv.op == opAugment2 || lv.op == opAugmentSub) // nothing is written there inline
		}
		if i == 0 && (sc.top == topRPCInputImplicit || sc.top == topRPCOutputImplicit || sc.top == topActGrpImplicit) && lv.op == opAugmentSub {
			// allowed: the submodule may fill the unwritten input/output, too
		}
		if lv.op == opAugmentSub {
			// the submodule does not import a or b2: its target path may only run through m's nodes
			for _, nsx := range nsOf {
				if nsx != "m" {
					assume(false)
				}
			}
			ctx = "m"
			for _, up := range sc.levels {
				if up.op == opChoiceShort {
					assume(false)
				}
			}
		}
		if lv.op == opAugment || lv.op == opAugment2 {
			ctx = "a"
			if lv.op == opAugment2 {
				ctx = "b2"
			}
			// an augment whose target path runs through the implicit case of a shorthand choice
			// member is outside the claim (the library inserts implicit cases after augmentation)
			for _, up := range sc.levels {
				if up.op == opChoiceShort {
					assume(false)
				}
			}
		}
		lv.ns = ctx
		idx := string([]byte{'1' + byte(i)})
		switch lv.op {
		case opChoiceCase:
			steps = append(append([]string{}, steps...), "ch"+idx, "cs"+idx)
			nsOf = append(append([]string{}, nsOf...), ctx, ctx)
		case opChoiceShort:
			steps = append(append([]string{}, steps...), "ch"+idx, lv.name)
			nsOf = append(append([]string{}, nsOf...), ctx, ctx)
		}
		steps = append(append([]string{}, steps...), lv.name)
		nsOf = append(append([]string{}, nsOf...), ctx)
		lv.steps, lv.nsOf = steps, nsOf
		sc.levels = append(sc.levels, lv)
	}
	// module b2's own prefix matters only when b2 writes an augment
	for _, lv := range sc.levels {
		if lv.op == opAugment2 && hcB2Prefix == "b2" && !hcSlim {
			if symChoice(2) == 1 {
				hcB2Prefix = "m"
			}
			break
		}
	}
	inG2Top := sc.top == topActGrpInput || sc.top == topActGrpOutput
	body := sc.gen(0, inG2Top)
	switch sc.top {
	case topModule:
		sc.mBody += "container root { " + body + "} "
	case topSubmodule:
		sc.sBody += "container root { " + body + "} "
	case topRPCInput:
		sc.mBody += "rpc r { input { " + body + "} } "
	case topRPCOutput:
		sc.mBody += "rpc r { output { " + body + "} } "
	case topNotification:
		sc.mBody += "notification nt { " + body + "} "
	case topRPCInputImplicit, topRPCOutputImplicit:
		sc.mBody += "rpc r { } "
	case topActGrpInput:
		sc.gBody += "grouping gact { action act { input { " + sc.gen0InG2(body) + "} } } "
		sc.mBody += "container root { uses g2:gact; } container root2 { uses g2:gact; } "
	case topActGrpOutput:
		sc.gBody += "grouping gact { action act { output { " + sc.gen0InG2(body) + "} } } "
		sc.mBody += "container root { uses g2:gact; } container root2 { uses g2:gact; } "
	case topActGrpImplicit:
		sc.gBody += "grouping gact { action act; } "
		sc.mBody += "container root { uses g2:gact; } container root2 { uses g2:gact; } "
	}
	sc.texts = []string{
		`module m { yang-version 1.1; namespace "urn:m"; prefix m; import g2 { prefix g2; } include s; ` + sc.mBody + `}`,
		`submodule s { yang-version 1.1; belongs-to m { prefix m; } import g2 { prefix g2; } ` + sc.sBody + `}`,
		`module a { yang-version 1.1; namespace "urn:a"; prefix a; import m { prefix mm; } import g2 { prefix g2; } ` + sc.aBody + `}`,
		`module g2 { yang-version 1.1; namespace "urn:g2"; prefix g2; ` + sc.gBody + `}`,
		`module b2 { yang-version 1.1; namespace "urn:b2"; prefix ` + hcB2Prefix + `; import m { prefix mm; } import a { prefix aa; } import g2 { prefix g2; } ` + sc.bBody + `}`,
	}
	return sc
}

// gen0InG2 is the identity: the body of a grouping-hosted top was generated for module g2 already.
func (sc *hcSchema) gen0InG2(body string) string { return body }

// hcWalk follows step names from the tree of module m using Dir and RPC input/output only.
func hcWalk(ms *Modules, steps []string) *Entry {
	e := ToEntry(ms.Modules["m"])
	for _, s := range steps {
		if e == nil {
			return nil
		}
		if e.RPC != nil && (s == "input" || s == "output") {
			if s == "input" {
				e = e.RPC.Input
			} else {
				e = e.RPC.Output
			}
			continue
		}
		e = e.Dir[s]
	}
	return e
}

// hcExpectRO computes read-only-ness of the node at the end of level k (k = -1: the top)
// from the explicit config statements on its path.
func (sc *hcSchema) hcExpectRO(k int) bool {
	for i := k; i >= 0; i-- {
		switch sc.levels[i].cfg {
		case 1:
			return false
		case 2:
			return true
		}
	}
	return sc.top == topRPCOutput || sc.top == topRPCOutputImplicit || sc.top == topActGrpOutput
}
