package yang

// C12 - config inheritance and namespace attribution follow the instantiated tree.
// Units: entry.go ReadOnly, Namespace, InstantiatingModule, on trees built by the whole
// pipeline from the composition universe (comp.go). Oracle: computed from the source structure.

func h12CheckNode(e *Entry, ro bool, ns string, what string) {
	check(e != nil, "the node exists where the composition places it ("+what+")")
	if e == nil {
		return
	}
	// an implicit case is not written in the source, so "explicit config statement" does not
	// apply to it (the library gives it its member's config): only its namespace is checked
	check(what == "implicit case" || e.ReadOnly() == ro, "read-only exactly when the nearest explicit config on the path says false, or in rpc output ("+what+")")
	got := e.Namespace()
	check(got != nil && got.Name == "urn:"+ns, "namespace is that of the module whose text placed the node ("+what+")")
	im, err := e.InstantiatingModule()
	check(err == nil && im == ns, "instantiating module is the module whose text placed the node ("+what+")")
}

func H12() {
	hcSlim = param("slim") == 1
	hcNoCfg = false
	sc := hcGenerate(param("n"))
	note(sc.texts[0] + sc.texts[1] + sc.texts[2] + sc.texts[3] + sc.texts[4])
	ms, lerrs := hLoad(sc.texts...)
	check(len(lerrs) == 0, "the generated modules parse")
	if len(lerrs) > 0 {
		return
	}
	errs := ms.Process()
	check(len(errs) == 0, "the generated modules process without error")
	if len(errs) > 0 {
		return
	}
	reach("processed")
	hWF(ms)
	for k, lv := range sc.levels {
		ro := sc.hcExpectRO(k)
		h12CheckNode(hcWalk(ms, lv.steps), ro, lv.ns, "level container")
		idx := string([]byte{'1' + byte(k)})
		xro := ro
		switch lv.extraCfg {
		case 1:
			xro = false
		case 2:
			xro = true
		}
		h12CheckNode(hcWalk(ms, append(append([]string{}, lv.steps...), "l"+idx)), xro, lv.ns, "leaf / leaf-list / list next to the next level")
		// the choice carries the level's config statement or none; the case wrappers never do: they inherit
		if lv.op == opChoiceCase || lv.op == opChoiceShort {
			above := sc.hcExpectRO(k - 1)
			if lv.onChoice {
				above = ro // the config statement is written on the choice itself
			}
			h12CheckNode(hcWalk(ms, lv.steps[:len(lv.steps)-2]), above, lv.ns, "choice")
			cw := "case"
			if lv.op == opChoiceShort {
				cw = "implicit case"
			}
			h12CheckNode(hcWalk(ms, lv.steps[:len(lv.steps)-1]), above, lv.ns, cw)
		}
	}
}

// H12late: the instantiating module of nodes placed by a module that joins the set after a
// processing run and after the first queries were answered.
func H12late() {
	m := `module m { namespace "urn:m"; prefix m; container c { leaf l { type string; } } }`
	a := `module a { namespace "urn:a"; prefix a; import m { prefix mm; } container own { leaf ol { type string; } } augment /mm:c { leaf al { type string; } } }`
	hNoFiles()
	ms := NewModules()
	check(ms.Parse(m, "m.yang") == nil, "m loads")
	early := symBool()
	if early {
		check(len(ms.Process()) == 0, "m processes")
		if symBool() {
			im, err := ToEntry(ms.Modules["m"]).Dir["c"].InstantiatingModule()
			check(err == nil && im == "m", "instantiating module of a node of m")
		}
		if symBool() {
			_, err := ms.FindModuleByNamespace("urn:a")
			check(err != nil, "a namespace no loaded module has is not found")
		}
	}
	check(ms.Parse(a, "a.yang") == nil, "a loads")
	check(len(ms.Process()) == 0, "the set processes")
	reach("processed")
	c := ToEntry(ms.Modules["m"]).Dir["c"]
	for _, q := range []struct {
		e    *Entry
		want string
	}{{c, "m"}, {c.Dir["l"], "m"}, {c.Dir["al"], "a"}, {ToEntry(ms.Modules["a"]).Dir["own"], "a"}, {ToEntry(ms.Modules["a"]).Dir["own"].Dir["ol"], "a"}} {
		check(q.e != nil, "node exists")
		if q.e == nil {
			continue
		}
		im, err := q.e.InstantiatingModule()
		check(err == nil && im == q.want, "instantiating module is the module whose text placed the node, also for modules that joined the set after earlier queries")
		check(q.e.Namespace().Name == "urn:"+q.want, "namespace of the module whose text placed the node")
	}
}
