package yang

// C12 - config inheritance and namespace attribution follow the instantiated tree.
// Units: entry.go ReadOnly, Namespace, InstantiatingModule, on trees built by the whole
// pipeline from the composition universe (comp.go). Oracle: computed from the source structure.

func h12CheckNode(e *Entry, ro bool, ns string, what string) {
	check(e != nil, "the node exists where the composition places it ("+what+")")
	if e == nil {
		return
	}
	// an implicit case is not written in the source, so "explicit config statement" does not
	// apply to it (the library gives it its member's config): only its namespace is checked
	check(what == "implicit case" || e.ReadOnly() == ro, "read-only exactly when the nearest explicit config on the path says false, or in rpc output ("+what+")")
	got := e.Namespace()
	check(got != nil && got.Name == "urn:"+ns, "namespace is that of the module whose text placed the node ("+what+")")
	im, err := e.InstantiatingModule()
	check(err == nil && im == ns, "instantiating module is the module whose text placed the node ("+what+")")
}

func H12() {
	hcSlim = param("slim") == 1
	sc := hcGenerate(param("n"))
	note(sc.texts[0] + sc.texts[1] + sc.texts[2] + sc.texts[3] + sc.texts[4])
	ms, lerrs := hLoad(sc.texts...)
	check(len(lerrs) == 0, "the generated modules parse")
	if len(lerrs) > 0 {
		return
	}
	errs := ms.Process()
	check(len(errs) == 0, "the generated modules process without error")
	if len(errs) > 0 {
		return
	}
	reach("processed")
	hWF(ms)
	for k, lv := range sc.levels {
		ro := sc.hcExpectRO(k)
		h12CheckNode(hcWalk(ms, lv.steps), ro, lv.ns, "level container")
		idx := string([]byte{'1' + byte(k)})
		xro := ro
		switch lv.extraCfg {
		case 1:
			xro = false
		case 2:
			xro = true
		}
		h12CheckNode(hcWalk(ms, append(append([]string{}, lv.steps...), "l"+idx)), xro, lv.ns, "leaf / leaf-list / list next to the next level")
		// the choice carries the level's config statement or none; the case wrappers never do: they inherit
		if lv.op == opChoiceCase || lv.op == opChoiceShort {
			above := sc.hcExpectRO(k - 1)
			if lv.onChoice {
				above = ro // the config statement is written on the choice itself
			}
			h12CheckNode(hcWalk(ms, lv.steps[:len(lv.steps)-2]), above, lv.ns, "choice")
			cw := "case"
			if lv.op == opChoiceShort {
				cw = "implicit case"
			}
			h12CheckNode(hcWalk(ms, lv.steps[:len(lv.steps)-1]), above, lv.ns, cw)
		}
	}
}
