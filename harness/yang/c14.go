package yang

import "strconv"

// C14 - enum values and bit positions are assigned as RFC 7950 9.6.4.2 / 9.7.4.2 say.
// Units: types_builtin.go NewEnumType/NewBitfield, (*EnumType).Set/SetNext, NameMap, ValueMap,
// Names, Values. Oracle: the RFC rule over exact integers (mInt).

// H14a: a sequence of m members, each with a symbolic name byte (so every equality pattern of
// names occurs), a symbolic explicit/implicit flag and a symbolic int64 value. The sequence is
// fed to the two calls Type.resolve makes (Set for explicit, SetNext for implicit); the run
// stops at the first member the RFC rule rejects.
func H14a() {
	m := param("m")
	bits := param("bits") == 1
	var e *EnumType
	lo, hi := mI(MinEnum), mI(MaxEnum)
	if bits {
		e = NewBitfield()
		lo, hi = mI(0), mI(MaxBitfieldSize-1)
	} else {
		e = NewEnumType()
	}
	names := make([]byte, 0, m)
	vals := make([]int64, 0, m)
	highest := mI(0)
	for i := 0; i < m; i++ {
		// a name is one of m letters or the zero-length string (drawn as the byte before 'a')
		nb := symByte()
		assume(nb >= 'a'-1)
		assume(nb <= 'a'+byte(m)-1)
		explicit := symBool()
		dupName := false
		for _, o := range names {
			dupName = symOr(dupName, o == nb)
		}
		var err error
		var want mInt
		name := string([]byte{nb})
		if nb == 'a'-1 {
			name = ""
		}
		if explicit {
			v := symI64()
			want = mI(v)
			err = e.Set(name, v)
		} else {
			if i == 0 {
				want = mI(0)
			} else {
				want = mAdd(highest, mI(1))
			}
			err = e.SetNext(name)
		}
		dupVal := false
		for _, o := range vals {
			dupVal = symOr(dupVal, mEq(mI(o), want))
		}
		outOfRange := symOr(mLess(want, lo), mLess(hi, want))
		if bits {
			// the property does not ask for unique bit positions (the library allows them):
			// no claim either way for a repeated position
			assume(symNot(symAnd(dupVal, symNot(symOr(dupName, outOfRange)))))
			dupVal = false
		}
		bad := symOr(dupName, symOr(dupVal, outOfRange))
		if err != nil {
			reach("rejected")
			check(bad, "a member is rejected only for a duplicate name, a duplicate value or a value outside the range")
			return
		}
		check(symNot(bad), "duplicate name / duplicate enum value / out-of-range value / automatic value above the maximum is an error")
		got, ok := e.ToInt[name]
		check(ok, "accepted member is recorded under its name")
		check(mEq(mI(got), want), "member value: explicit value, else 0 for the first member, else highest so far + 1")
		if i == 0 {
			highest = want
		} else {
			highest = mIte(mLess(highest, want), want, highest)
		}
		names = append(names, nb)
		vals = append(vals, got)
	}
	reach("all-accepted")
	// the two views
	nm, vm := e.NameMap(), e.ValueMap()
	check(len(nm) == len(names), "name view has one entry per member")
	for i, nb := range names {
		name := string([]byte{nb})
		if nb == 'a'-1 {
			name = ""
		}
		v, ok := nm[name]
		check(ok, "name view holds every member")
		check(v == vals[i], "name view holds the assigned value")
		if !bits {
			n2, ok2 := vm[vals[i]]
			check(ok2, "value view holds every enum value")
			check(n2 == name, "value view is the inverse of the name view")
		}
	}
	if !bits {
		check(len(vm) == len(nm), "enum views have the same size")
	}
	ns, vs := e.Names(), e.Values()
	check(len(ns) == len(names) && len(vs) == len(names), "Names/Values are complete")
	for i := 1; i < len(ns); i++ {
		check(ns[i-1] < ns[i], "Names() is sorted and duplicate-free")
		check(vs[i-1] <= vs[i], "Values() is sorted")
	}
}

// H14u: the use site. `enum a { value V; } enum b;` (or bits with `position`) through the whole
// pipeline, V the decimal spelling of an arbitrary 64-bit magnitude with optional sign: the conversion
// of the value text (ParseInt -> Int -> Set) must not wrap.
func H14u() {
	bits := param("bits") == 1
	// the literal is the decimal spelling of an arbitrary 64-bit magnitude (all digit counts
	// 1..20; the digits are tied to the value by the quotient chain of the FormatUint intrinsic)
	neg := symBool()
	v := symU64()
	val := mU(v)
	lit := strconv.FormatUint(v, 10)
	if neg {
		lit = "-" + lit
		val = mNeg(val)
	}
	var ty string
	lo, hi := mI(MinEnum), mI(MaxEnum)
	if bits {
		ty = `type bits { bit a { position ` + lit + `; } bit b; }`
		lo, hi = mI(0), mI(MaxBitfieldSize-1)
	} else {
		ty = `type enumeration { enum a { value ` + lit + `; } enum b; }`
	}
	note(ty)
	ms, lerrs := hLoad(`module m { namespace "urn:m"; prefix m; leaf l { ` + ty + ` } }`)
	check(len(lerrs) == 0, "the module parses")
	errs := ms.Process()
	// a is in range; b = a+1 must not exceed the maximum
	inRange := symAnd(mLe(lo, val), mLess(val, hi))
	if len(errs) > 0 {
		reach("rejected")
		check(symNot(inRange), "an explicit value in range followed by an automatic one below the maximum is accepted")
		return
	}
	reach("accepted")
	check(inRange, "a value or position outside the type's range (or an automatic value above the maximum) is an error - the text is converted without wrapping")
	e := ToEntry(ms.Modules["m"]).Dir["l"]
	et := e.Type.Enum
	if bits {
		et = e.Type.Bit
	}
	check(et != nil, "member set resolved")
	if et != nil {
		check(mEq(mI(et.Value("a")), val), "the explicit member has exactly the written value")
		check(mEq(mI(et.Value("b")), mAdd(val, mI(1))), "the automatic member is one more than the highest so far")
	}
}
