package yang

// C08 - deviations change exactly what they name, in written order, or are reported.
// Units: entry.go ToEntry (deviation/deviate cases), ApplyDeviate, modules.go Process,
// options.go. Oracle: a reference application of RFC 7950 7.20.3 in written order on a model of
// the target whose pre-state is read from the run WITHOUT the deviating module
// (self-composition; also the frame: every untargeted node must be identical in both runs).

type h08State struct {
	present   bool
	isList    bool // list or leaf-list
	isLeafLst bool
	def       []string
	config    TriState
	mandatory TriState
	min, max  uint64
	units     string
	kind      TypeKind
}

func h08Read(e *Entry) h08State {
	if e == nil {
		return h08State{}
	}
	s := h08State{present: true, isList: e.IsList() || e.IsLeafList(), isLeafLst: e.IsLeafList(), config: e.Config, mandatory: e.Mandatory, units: e.Units}
	s.def = append(s.def, e.Default...)
	if e.ListAttr != nil {
		s.min, s.max = e.ListAttr.MinElements, e.ListAttr.MaxElements
	}
	if e.Type != nil {
		s.kind = e.Type.Kind
	}
	return s
}

type h08Dev struct {
	kind string // not-supported add replace delete bogus
	prop string // default config mandatory min max units type badtype none
	sval string // string value (default, units)
	bval bool   // config / mandatory value
	nval uint64 // element bound
}

func (d h08Dev) text() string {
	body := ""
	switch d.prop {
	case "default":
		body = ` default "` + d.sval + `";`
	case "config":
		body = " config " + map[bool]string{true: "true", false: "false"}[d.bval] + ";"
	case "mandatory":
		body = " mandatory " + map[bool]string{true: "true", false: "false"}[d.bval] + ";"
	case "min":
		body = " min-elements " + hItoa(int64(d.nval)) + ";"
	case "max":
		if d.nval == 1<<64-1 {
			body = " max-elements unbounded;"
		} else {
			body = " max-elements " + hItoa(int64(d.nval)) + ";"
		}
	case "units":
		body = ` units "` + d.sval + `";`
	case "type":
		body = " type int8;"
	case "badtype":
		// a replacement type that cannot be resolved: at once (unknown name, unknown prefix) or
		// only after its base was found (unknown union member, missing identity, bad restriction)
		body = []string{" type nosuch;", " type union { type string; type nosuch; }", " type identityref { base nosuch; }", ` type int8 { range "5..1"; }`, " type zz:t;"}[d.nval]
	}
	if d.kind == "not-supported" {
		return "deviate not-supported; "
	}
	return "deviate " + d.kind + " {" + body + " } "
}

// h08Slim: the pair universe of the thorough tier keeps to two values per element bound and one
// unresolvable type spelling.
var h08Slim bool

func h08Draw() h08Dev {
	d := h08Dev{kind: []string{"not-supported", "add", "replace", "delete", "bogus"}[symChoice(5)]}
	if d.kind == "not-supported" {
		d.prop = "none"
		return d
	}
	props := []string{"default", "config", "mandatory", "min", "max", "units", "type", "badtype"}
	if d.kind == "delete" {
		props = props[:5] // the properties delete names: config, default, mandatory, min/max-elements
	}
	d.prop = props[symChoice(len(props))]
	switch d.prop {
	case "default", "units":
		b := symByte()
		assume(symOr(b == 'a', b == 'b'))
		d.sval = string([]byte{b})
	case "config", "mandatory":
		d.bval = symChoice(2) == 1
	case "min":
		if h08Slim {
			d.nval = []uint64{1, 5}[symChoice(2)]
		} else {
			d.nval = []uint64{1, 5, 0}[symChoice(3)] // 0: the statement is given with its default value
		}
	case "max":
		if h08Slim {
			d.nval = []uint64{1, 5}[symChoice(2)]
		} else {
			d.nval = []uint64{1, 5, 1<<64 - 1}[symChoice(3)] // the last: `unbounded`
		}
	case "badtype":
		if !h08Slim {
			d.nval = uint64(symChoice(5))
		}
	}
	return d
}

// h08Apply is the reference: it applies one deviate statement to the model state and reports
// whether the property demands an error.
func h08Apply(s *h08State, d h08Dev, ignoreNS bool) (mustErr bool) {
	switch d.kind {
	case "bogus":
		return true
	case "not-supported":
		if !ignoreNS {
			s.present = false
		}
		return false
	}
	if d.prop == "badtype" {
		return true // unresolvable replacement type
	}
	if (d.prop == "min" || d.prop == "max") && !s.isList {
		return true // element bounds on a non-list
	}
	switch d.kind {
	case "add", "replace":
		switch d.prop {
		case "default":
			if d.kind == "add" {
				if s.isLeafLst {
					s.def = append(s.def, d.sval)
				} else if len(s.def) > 0 {
					return true // adding a default where one exists
				} else {
					s.def = []string{d.sval}
				}
			} else {
				s.def = []string{d.sval}
			}
		case "config":
			s.config = TSFalse
			if d.bval {
				s.config = TSTrue
			}
		case "mandatory":
			s.mandatory = TSFalse
			if d.bval {
				s.mandatory = TSTrue
			}
		case "min":
			s.min = d.nval
		case "max":
			s.max = d.nval
		case "units":
			s.units = d.sval
		case "type":
			s.kind = Yint8
		}
	case "delete":
		switch d.prop {
		case "default":
			if s.isLeafLst {
				return true // the library documents delete of leaf-list defaults as unsupported: reported
			}
			if len(s.def) == 0 || s.def[0] != d.sval {
				return true // deleting a default that is absent or different
			}
			s.def = nil
		case "config":
			s.config = TSUnset
		case "mandatory":
			s.mandatory = TSUnset
		case "min":
			if s.min != d.nval {
				return true // deleting an element bound that is absent or different
			}
			s.min = 0
		case "max":
			if s.max != d.nval {
				return true
			}
			s.max = 1<<64 - 1
		}
	}
	return false
}

func H08() {
	// base module: optional properties present or absent
	lfDefault, llBounds := symBool(), symBool()
	lf := `leaf lf { type string;`
	if lfDefault {
		lf += ` default "a";`
	}
	lf += ` }`
	ll := `leaf-list ll { type string;`
	if llBounds {
		ll += ` min-elements 1; max-elements 5;`
	}
	ll += ` }`
	base := `module m { namespace "urn:m"; prefix m; typedef td { type string; default "t"; } leaf lt { type td; } ` + lf + ` ` + ll + ` list ls { key k; leaf k { type string; } max-elements 5; } container c { leaf other { type string; default "o"; } } leaf untouched { type int8; default "3"; } grouping g { leaf gl { type string; default "a"; } } container u1 { uses g; } container u2 { uses g; } }`
	targets := []string{"lf", "ll", "ls", "c", "missing", "u1/m:gl", "lt"}
	slim := param("slim") == 1 // pairs of deviate statements: two targets, no variants
	h08Slim = slim
	if slim {
		targets = targets[:2]
	}
	target := targets[symChoice(len(targets))]
	nd := 1 + symChoice(param("d"))
	if slim {
		nd = param("d")
	}
	var devs []h08Dev
	dtext := ""
	for i := 0; i < nd; i++ {
		d := h08Draw()
		if nd > 1 && d.kind == "not-supported" {
			assume(false) // RFC 7950 7.20.3: not-supported stands alone in its deviation statement
		}
		devs = append(devs, d)
		dtext += d.text()
	}
	ignoreNS := !slim && symBool()
	dstmt := `deviation /m:` + target + ` { ` + dtext + `} `
	dev := `module d { namespace "urn:d"; prefix d; import m { prefix m; } ` + dstmt + `}`
	devsub := ""
	if !slim && symBool() {
		// the deviation statement is written in a submodule of the deviating module
		dev = `module d { namespace "urn:d"; prefix d; include ds; }`
		devsub = `submodule ds { belongs-to d { prefix d; } import m { prefix m; } ` + dstmt + `}`
	}
	note(base + dev + devsub)

	// run A: without the deviating module (pre-state and frame)
	msA, lerrsA := hLoad(base)
	check(len(lerrsA) == 0, "base parses")
	errsA := msA.Process()
	check(len(errsA) == 0, "base processes")
	emA := ToEntry(msA.Modules["m"])
	find := func(em *Entry) *Entry {
		if target == "u1/m:gl" {
			if em.Dir["u1"] == nil {
				return nil
			}
			return em.Dir["u1"].Dir["gl"]
		}
		return em.Dir[target]
	}
	state := h08Read(find(emA))

	// run B: with it
	msB := NewModules()
	if ignoreNS {
		msB.ParseOptions.DeviateOptions.IgnoreDeviateNotSupported = true
	}
	e1 := msB.Parse(base, "f0.yang")
	e2 := msB.Parse(dev, "f1.yang")
	if devsub != "" && e2 == nil {
		e2 = msB.Parse(devsub, "f2.yang")
	}
	check(e1 == nil, "base parses again")
	if e2 != nil {
		// an unknown deviate kind or a malformed body may already be refused at load time: reported
		reach("refused-at-load")
		return
	}
	errsB := msB.Process()

	mustErr := target == "missing"
	if !mustErr {
		for _, d := range devs {
			if !state.present {
				break // the target was removed by an earlier not-supported
			}
			if h08Apply(&state, d, ignoreNS) {
				mustErr = true
				break
			}
		}
	}
	if len(errsB) > 0 {
		reach("rejected")
		check(mustErr, "a deviation that can be applied is applied without error")
		return
	}
	reach("applied")
	check(!mustErr, "a deviation that cannot be applied is reported as an error")
	hWF(msB)
	emB := ToEntry(msB.Modules["m"])
	got := h08Read(find(emB))
	check(got.present == state.present, "not-supported removes exactly the target (and retains it under the ignore option)")
	if got.present && state.present {
		check(len(got.def) == len(state.def), "default values as RFC 7950 7.20.3 prescribes, in written order")
		if len(got.def) == len(state.def) {
			for i := range got.def {
				check(got.def[i] == state.def[i], "default values as RFC 7950 7.20.3 prescribes, in written order")
			}
		}
		check(got.config == state.config, "config as prescribed")
		check(got.mandatory == state.mandatory, "mandatory as prescribed")
		check(got.min == state.min && got.max == state.max, "element bounds as prescribed")
		check(got.units == state.units, "units as prescribed")
		check(got.kind == state.kind, "type as prescribed")
	}
	// frame: every node no deviation targets is identical to the run without the deviating module
	for _, k := range hSortedDir(emA.Dir) {
		if k == target || (k == "u1" && target == "u1/m:gl") {
			continue
		}
		check(emB.Dir[k] != nil && hDumpTree(emB.Dir[k], "") == hDumpTree(emA.Dir[k], ""), "every node that no deviation targets is identical to the run without the deviating module")
	}
	if target == "u1/m:gl" {
		check(len(emB.Dir["u1"].Dir) == len(emA.Dir["u1"].Dir)-map[bool]int{true: 0, false: 1}[got.present], "siblings of the target are untouched")
	}
	if target == "c" && got.present {
		// (the child's inherited read-only-ness follows the container's config: not part of the frame)
		check(hReplaceNS(hDumpTree(emB.Dir["c"].Dir["other"], ""), " ro\n", "\n") == hReplaceNS(hDumpTree(emA.Dir["c"].Dir["other"], ""), " ro\n", "\n"), "children of a deviated container are untouched")
	}
}

// H08seq: several deviation statements on one path in one module, in written order: a
// deviation that comes after a not-supported of the same node finds no target and is reported.
func H08seq() {
	base := `module m { namespace "urn:m"; prefix m; container c { leaf x { type string; default "a"; } leaf keep { type string; } } }`
	stmts := []string{
		`deviation /m:c/m:x { deviate replace { default "b"; } } `,
		`deviation /m:c/m:x { deviate not-supported; } `,
		`deviation /m:c/m:x { deviate replace { default "c"; } } `,
		`deviation /m:c { deviate not-supported; } `,
		`deviation /m:c/m:keep { deviate add { default "k"; } } `,
	}
	n := 2 + symChoice(2)
	var seq []int
	text := ""
	for i := 0; i < n; i++ {
		k := symChoice(len(stmts))
		seq = append(seq, k)
		text += stmts[k]
	}
	dev := `module d { namespace "urn:d"; prefix d; import m { prefix m; } ` + text + `}`
	note(dev)
	ms, lerrs := hLoad(base, dev)
	check(len(lerrs) == 0, "modules parse")
	errs := ms.Process()
	// reference: sequential application
	hasC, hasX, hasKeep := true, true, true
	xdef, kdef := "a", ""
	mustErr := false
	for _, k := range seq {
		switch k {
		case 0, 2:
			if !hasC || !hasX {
				mustErr = true
			} else {
				xdef = []string{"b", "", "c"}[k]
			}
		case 1:
			if !hasC || !hasX {
				mustErr = true
			} else {
				hasX = false
			}
		case 3:
			if !hasC {
				mustErr = true
			} else {
				hasC = false
			}
		case 4:
			if !hasC || !hasKeep {
				mustErr = true
			} else if kdef != "" {
				mustErr = true // adding a default where one exists
			} else {
				kdef = "k"
			}
		}
	}
	if len(errs) > 0 {
		reach("rejected")
		check(mustErr, "deviations that can be applied in their written order are applied without error")
		return
	}
	reach("applied")
	check(!mustErr, "a deviation whose target an earlier deviation removed (or that adds a default where one exists) is reported")
	c := ToEntry(ms.Modules["m"]).Dir["c"]
	check((c != nil) == hasC, "not-supported removes exactly the target")
	if c != nil {
		check((c.Dir["x"] != nil) == hasX, "not-supported removes exactly the target")
		if x := c.Dir["x"]; x != nil {
			check(len(x.Default) == 1 && x.Default[0] == xdef, "several deviations on one target take effect in their written order")
		}
		if kp := c.Dir["keep"]; kp != nil {
			check((kdef == "" && len(kp.Default) == 0) || (len(kp.Default) == 1 && kp.Default[0] == kdef), "the sibling changes only as deviated")
		}
	}
}

// H08tri: three deviate statements in ONE deviation statement whose kinds interleave and whose
// effects do not commute: they take effect in their written order.
func H08tri() {
	base := `module m { namespace "urn:m"; prefix m; leaf x { type string; default "a"; } }`
	opts := []string{
		`deviate add { units "u"; } `,
		`deviate delete { default "a"; } `,
		`deviate add { default "b"; } `,
		`deviate replace { default "c"; } `,
		`deviate delete { default "b"; } `,
		`deviate replace { units "v"; } `,
		`deviate delete { default "c"; } `,
	}
	var seq []int
	text := ""
	for i := 0; i < 3; i++ {
		k := symChoice(len(opts))
		seq = append(seq, k)
		text += opts[k]
	}
	dev := `module d { namespace "urn:d"; prefix d; import m { prefix m; } deviation /m:x { ` + text + `} }`
	note(dev)
	ms, lerrs := hLoad(base, dev)
	check(len(lerrs) == 0, "modules parse")
	errs := ms.Process()
	def, units := "a", ""
	mustErr := false
	for _, k := range seq {
		switch k {
		case 0:
			units = "u"
		case 1, 4, 6:
			want := []string{"", "a", "", "", "b", "", "c"}[k]
			if def != want {
				mustErr = true
			} else {
				def = ""
			}
		case 2:
			if def != "" {
				mustErr = true
			} else {
				def = "b"
			}
		case 3:
			def = "c"
		case 5:
			units = "v"
		}
		if mustErr {
			break
		}
	}
	if len(errs) > 0 {
		reach("rejected")
		check(mustErr, "deviate statements that can be applied in their written order are applied without error")
		return
	}
	reach("applied")
	check(!mustErr, "a deviate statement that cannot be applied at its place in the written order is reported")
	x := ToEntry(ms.Modules["m"]).Dir["x"]
	check((def == "" && len(x.Default) == 0) || (len(x.Default) == 1 && x.Default[0] == def), "several deviate statements on one target take effect in their written order (default)")
	check(x.Units == units, "several deviate statements on one target take effect in their written order (units)")
}

// H08multi: several deviating modules. Two modules d1 and d2 (loaded in either order, before or
// after the base module) each deviate one of two different targets with one deviate statement of
// any kind and property: each target is what the reference application gives, everything else is
// untouched, and an unappliable deviation in either module is reported.
func H08multi() {
	h08Slim = false
	base := `module m { namespace "urn:m"; prefix m; leaf lf { type string; default "a"; } leaf-list ll { type string; min-elements 1; max-elements 5; } leaf lx { type string; } container c { leaf other { type string; default "o"; } } }`
	pairs := [][2]string{{"lf", "ll"}, {"ll", "lf"}, {"lx", "lf"}}
	pr := pairs[symChoice(len(pairs))]
	t1, t2 := pr[0], pr[1]
	// the first module's statement ranges over everything H08 draws, the second one's over a few
	da := h08Draw()
	db := h08Dev{kind: []string{"not-supported", "add", "replace"}[symChoice(3)], prop: "none"}
	if db.kind != "not-supported" {
		db.prop = []string{"default", "config", "max"}[symChoice(3)]
		switch db.prop {
		case "default":
			db.sval = []string{"a", "b"}[symChoice(2)]
		case "config":
			db.bval = symChoice(2) == 1
		case "max":
			db.nval = []uint64{1, 5}[symChoice(2)]
		}
	}
	d1 := `module d1 { namespace "urn:d1"; prefix d1; import m { prefix m; } deviation /m:` + t1 + ` { ` + da.text() + `} }`
	d2 := `module d2 { namespace "urn:d2"; prefix d2; import m { prefix m; } deviation /m:` + t2 + ` { ` + db.text() + `} }`
	note(d1 + d2)
	msA, lerrsA := hLoad(base)
	check(len(lerrsA) == 0, "base parses")
	check(len(msA.Process()) == 0, "base processes")
	emA := ToEntry(msA.Modules["m"])
	s1, s2 := h08Read(emA.Dir[t1]), h08Read(emA.Dir[t2])
	orders := [][]string{{base, d1, d2}, {d2, d1, base}}
	o := orders[symChoice(len(orders))]
	hNoFiles()
	msB := NewModules()
	for i, t := range o {
		if err := msB.Parse(t, "f"+string([]byte{'0' + byte(i)})+".yang"); err != nil {
			reach("refused-at-load")
			return
		}
	}
	errsB := msB.Process()
	mustErr := h08Apply(&s1, da, false)
	if h08Apply(&s2, db, false) {
		mustErr = true
	}
	if len(errsB) > 0 {
		reach("rejected")
		check(mustErr, "deviations of several modules that can be applied are applied without error")
		return
	}
	reach("applied")
	check(!mustErr, "a deviation that cannot be applied is reported as an error, whichever module writes it")
	hWF(msB)
	emB := ToEntry(msB.Modules["m"])
	for _, c := range []struct {
		t    string
		want h08State
	}{{t1, s1}, {t2, s2}} {
		got := h08Read(emB.Dir[c.t])
		check(got.present == c.want.present, "not-supported removes exactly the target")
		if got.present && c.want.present {
			check(len(got.def) == len(c.want.def), "default values as prescribed, for each module's deviation")
			if len(got.def) == len(c.want.def) {
				for i := range got.def {
					check(got.def[i] == c.want.def[i], "default values as prescribed, for each module's deviation")
				}
			}
			check(got.config == c.want.config && got.mandatory == c.want.mandatory, "config and mandatory as prescribed")
			check(got.min == c.want.min && got.max == c.want.max, "element bounds as prescribed")
			check(got.units == c.want.units && got.kind == c.want.kind, "units and type as prescribed")
		}
	}
	for _, k := range hSortedDir(emA.Dir) {
		if k == t1 || k == t2 {
			continue
		}
		check(emB.Dir[k] != nil && hDumpTree(emB.Dir[k], "") == hDumpTree(emA.Dir[k], ""), "every node that no deviation targets is identical to the run without the deviating modules")
	}
}
