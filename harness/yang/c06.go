package yang

import "reflect"

// C06 - every use of a grouping is an independent, faithful, locally scoped copy.
// Units: entry.go ToEntry (uses), dup, merge; find.go FindGrouping; through the pipeline.
// Oracles: (faithful) the same body written inline, processed by a fresh set: uses == inline;
// (scoped) names inside the grouping resolve where the grouping is defined; (independent) no
// object is shared between instances, and a deviation/augment aimed at one instance leaves
// every other instance identical to the run without the aiming module (self-composition).

// h06Body returns a grouping body (as written in the defining module) and the same body with
// nested uses expanded by hand (as it would be written inline).
var h06HasAct, h06HasFeat bool

func h06Body() (string, string) {
	defer func() {}()
	body, inline := "", ""
	add := func(s string) { body += s; inline += s }
	if symBool() {
		add(`leaf lf { type t; default "7"; } `)
	} else {
		add(`leaf lf { type t; } `)
	}
	switch symChoice(3) {
	case 0:
		add(`leaf-list ll { type string; min-elements 1; max-elements 4; } `)
	case 1:
		add(`list ls { key k; leaf k { type string; } max-elements 9; } `)
	}
	h06HasFeat = symBool()
	if h06HasFeat {
		add(`container slot { description "empty"; } `)
	}
	hasAct := symBool()
	h06HasAct = hasAct
	if hasAct {
		add(`container ops { action act; action full { input { leaf i { type t; } } } } `)
	}
	if symBool() {
		add(`choice ch { case c1 { leaf a1 { type string; } } leaf a2 { type t; } } `)
	}
	if h06HasFeat {
		// (drawn together with the empty container to keep the universe small)
		// three entries on the copy's list of unsupported statements leave spare capacity for a fourth
		add(`leaf fl { type string; if-feature f1; if-feature f2; if-feature f3; } `)
	}
	switch symChoice(4) {
	case 3: // nested uses of a grouping of ANOTHER module that has the same name as this one
		body += `uses x3:g; `
		inline += `leaf xl { type boolean; } `
	case 0: // nested uses of a sibling grouping
		body += `uses h; `
		inline += `container hc { leaf hl { type identityref { base idn; } } } `
	case 1: // a grouping scoped inside a container of the grouping, used there
		// two same-named groupings in sibling scopes: each `uses inner` sees its own
		body += `container sc { grouping inner { leaf il { type t; } } uses inner; } container sd { grouping inner { leaf jl { type string; default "j"; } } uses inner; } `
		inline += `container sc { leaf il { type t; } } container sd { leaf jl { type string; default "j"; } } `
	}
	return body, inline
}

// h06Shared asserts that two subtrees share no entry, list attributes, child map or default array.
func h06Collect(e *Entry, entries map[*Entry]bool, attrs map[*ListAttr]bool, dirs map[uintptr]bool, defs map[*string]bool) {
	entries[e] = true
	for _, v := range e.Extra {
		if len(v) > 0 {
			h06Extras[&v[0]] = true
		}
	}
	if e.ListAttr != nil {
		attrs[e.ListAttr] = true
	}
	if e.Dir != nil {
		dirs[reflect.ValueOf(e.Dir).Pointer()] = true
	}
	if len(e.Default) > 0 {
		defs[&e.Default[0]] = true
	}
	for _, k := range hSortedDir(e.Dir) {
		h06Collect(e.Dir[k], entries, attrs, dirs, defs)
	}
}

var h06Extras map[*interface{}]bool

func h06Disjoint(a, b *Entry) {
	ea, aa, da, fa := map[*Entry]bool{}, map[*ListAttr]bool{}, map[uintptr]bool{}, map[*string]bool{}
	eb, ab, db, fb := map[*Entry]bool{}, map[*ListAttr]bool{}, map[uintptr]bool{}, map[*string]bool{}
	h06Extras = map[*interface{}]bool{}
	h06Collect(a, ea, aa, da, fa)
	xa := h06Extras
	h06Extras = map[*interface{}]bool{}
	h06Collect(b, eb, ab, db, fb)
	for k := range xa {
		check(!h06Extras[k], "two uses of a grouping share no storage of statements kept verbatim (if-feature, must, ...)")
	}
	for k := range ea {
		check(!eb[k], "two uses of a grouping share no node object")
	}
	for k := range aa {
		check(!ab[k], "two uses of a grouping share no list attributes")
	}
	for k := range da {
		check(!db[k], "two uses of a grouping share no child map")
	}
	// (shared default storage is observable: appending a default to one instance's leaf-list
	// can overwrite another instance's, when the backing array has spare capacity)
	for k := range fa {
		check(!fb[k], "two uses of a grouping share no default-value storage")
	}
}

// h06Sub renders the children of e (not e itself, whose name differs between instances).
func h06Sub(e *Entry) string {
	s := ""
	for _, k := range hSortedDir(e.Dir) {
		s += hDumpTree(e.Dir[k], "")
	}
	return s
}

func H06() {
	body, inline := h06Body()
	local := symBool() // grouping defined in the using module m, or in module g2
	// module g2 defines typedef t = int8 and identity idn; module m defines typedef t = string
	// and its own identity idn: names inside the grouping must resolve where it is defined
	gdefs := `feature f1; feature f2; feature f3; typedef t { type int8; } identity idn; grouping h { container hc { leaf hl { type identityref { base idn; } } } } grouping g { ` + body + `} `
	var m, g2 string
	usesG := "uses g2:g;"
	if local {
		m = `module m { yang-version 1.1; namespace "urn:m"; prefix m; import g2 { prefix g2; } import x3 { prefix x3; } feature fa; feature fb; ` + gdefs + `container u1 { uses g { if-feature fa; } } container u2 { uses g { if-feature fb; } } list u3 { key k; leaf k { type string; } uses g; } rpc u4 { input { uses g; } } notification u5 { uses g; } }`
		g2 = `module g2 { yang-version 1.1; namespace "urn:g2"; prefix g2; typedef t { type string; } identity idn; }`
		usesG = "uses mm:g;"
	} else {
		m = `module m { yang-version 1.1; namespace "urn:m"; prefix m; import g2 { prefix g2; } feature fa; feature fb; typedef t { type string; } identity idn; container u1 { uses g2:g { if-feature fa; } } container u2 { uses g2:g { if-feature fb; } } list u3 { key k; leaf k { type string; } uses g2:g; } rpc u4 { input { uses g2:g; } } notification u5 { uses g2:g; } }`
		g2 = `module g2 { yang-version 1.1; namespace "urn:g2"; prefix g2; import x3 { prefix x3; } ` + gdefs + `}`
	}
	a := `module a { yang-version 1.1; namespace "urn:a"; prefix a; import m { prefix mm; } import g2 { prefix g2; } container ua { ` + usesG + ` } }`
	// the same body written inline where the grouping is defined, in a module of its own
	ref := `module r { yang-version 1.1; namespace "urn:r"; prefix r; feature f1; feature f2; feature f3; typedef t { type int8; } identity idn; container u1 { ` + inline + `} }`
	// a module that has a grouping of its own named like the one under study
	x3 := `module x3 { yang-version 1.1; namespace "urn:x3"; prefix x3; grouping g { leaf xl { type boolean; } } }`
	// a module aiming at instance u1 only
	aim := ""
	aimLeafDefault := symBool()
	aimAttr := symBool()
	aimSlot := symBool()
	if aimLeafDefault {
		aim += `deviation /mm:u1/mm:lf { deviate replace { default "9"; } deviate add { units "uu"; } } `
	}
	d := `module d { yang-version 1.1; namespace "urn:d"; prefix d; import m { prefix mm; } ` + "AIM" + `}`
	note(m + g2 + a)

	ms, lerrs := hLoad(m, g2, a, ref, x3)
	check(len(lerrs) == 0, "the modules parse")
	if len(lerrs) > 0 {
		return
	}
	errs := ms.Process()
	check(len(errs) == 0, "the modules process without error")
	if len(errs) > 0 {
		return
	}
	reach("processed")
	hWF(ms)
	em := ToEntry(ms.Modules["m"])
	u1, u2, u3 := em.Dir["u1"], em.Dir["u2"], em.Dir["u3"]
	ua := ToEntry(ms.Modules["a"]).Dir["ua"]
	ur := ToEntry(ms.Modules["r"]).Dir["u1"]
	check(u1 != nil && u2 != nil && u3 != nil && ua != nil && ur != nil, "using nodes exist")
	// faithful copy: every instance equals the inline rendering (namespaces aside)
	s1 := h06Sub(u1)
	check(s1 == h06Sub(u2), "two uses of one grouping are identical")
	k := u3.Dir["k"]
	delete(u3.Dir, "k")
	check(s1 == h06Sub(u3), "a use inside a list is identical")
	u3.Dir["k"] = k
	if u4 := em.Dir["u4"]; u4 != nil && u4.RPC != nil && u4.RPC.Input != nil {
		check(s1 == h06Sub(u4.RPC.Input), "a use inside an rpc input is identical")
		h06Disjoint(u1, u4.RPC.Input)
	} else {
		check(false, "the rpc user exists")
	}
	if u5 := em.Dir["u5"]; u5 != nil {
		check(s1 == h06Sub(u5), "a use inside a notification is identical")
		h06Disjoint(u2, u5)
	} else {
		check(false, "the notification user exists")
	}
	sr := h06Sub(ur)
	check(hReplaceNS(hReplaceNS(s1, "urn:m", "urn:r"), " im=m", " im=r") == sr, "a use is identical to the grouping's body written inline where the grouping is defined")
	check(hReplaceNS(hReplaceNS(h06Sub(ua), "urn:a", "urn:r"), " im=a", " im=r") == sr, "a use from another module is identical, in that module's namespace")
	// scoping: type t is the defining module's int8 and the identityref sees the defining module's identity
	check(u1.Dir["lf"].Type.Kind == Yint8 && ua.Dir["lf"].Type.Kind == Yint8, "type names inside the grouping resolve in the defining scope")
	// statements kept verbatim on each copy: the grouping's own, then those of its use
	if h06HasFeat {
		for _, c := range []struct {
			u    *Entry
			last string
		}{{u1, "fa"}, {u2, "fb"}, {u3, ""}, {u1, "fa"}} {
			x := c.u.Dir["fl"].Extra["if-feature"]
			want := []string{"f1", "f2", "f3"}
			if c.last != "" {
				want = append(want, c.last)
			}
			check(len(x) == len(want), "each copy carries the grouping's if-feature statements and those of its own use")
			if len(x) == len(want) {
				for i, w := range want {
					v, ok := x[i].(*Value)
					check(ok && v != nil && v.Name == w, "each copy carries the grouping's if-feature statements and those of its own use, not another use's")
				}
			}
		}
	}
	// independence: no sharing
	h06Disjoint(u1, u2)
	h06Disjoint(u1, u3)
	h06Disjoint(u1, ua)
	h06Disjoint(u2, ua)
	// behavioural independence: aim a deviation / augment at u1 only, on a fresh set
	if aimAttr {
		if u1.Dir["ll"] != nil {
			aim += `deviation /mm:u1/mm:ll { deviate replace { max-elements 2; } } `
		} else if u1.Dir["ls"] != nil {
			aim += `deviation /mm:u1/mm:ls { deviate add { min-elements 3; } } `
		}
	}
	etext := ""
	if aimSlot && u1.Dir["slot"] != nil {
		aim += `augment /mm:u1/mm:slot { leaf added { type string; } container dd; } `
		// a third module uses the grouping h below the node that d's augment adds (two namespace
		// changes on one path: the copies belong to the module that uses them, e)
		hname := "g2:h"
		if local {
			hname = "mm:h"
		}
		etext = `module e { yang-version 1.1; namespace "urn:e"; prefix e; import m { prefix mm; } import g2 { prefix g2; } import d { prefix d; } augment /mm:u1/mm:slot/d:dd { uses ` + hname + `; } }`
	}
	if aimSlot && h06HasAct {
		// into the input that the action does not write, and into the written one
		aim += `augment /mm:u1/mm:ops/mm:act/mm:input { leaf addedin { type string; } } augment /mm:u1/mm:ops/mm:full/mm:input { leaf addedin2 { type string; } } `
	}
	if aim == "" {
		return
	}
	dtext := ""
	for i := 0; i < len(d); i++ {
		if i+3 <= len(d) && d[i:i+3] == "AIM" {
			dtext += aim
			i += 2
		} else {
			dtext += string([]byte{d[i]})
		}
	}
	textsB := []string{m, g2, a, ref, x3, dtext}
	if etext != "" {
		textsB = append(textsB, etext)
	}
	msB, lerrsB := hLoad(textsB...)
	check(len(lerrsB) == 0, "the aiming module parses")
	errsB := msB.Process()
	check(len(errsB) == 0, "the aiming module processes")
	if len(errsB) > 0 {
		return
	}
	reach("aimed")
	hWF(msB)
	bm := ToEntry(msB.Modules["m"])
	check(h06Sub(bm.Dir["u2"]) == h06Sub(u2), "changing one instance by augment or deviation leaves every other instance unchanged")
	check(h06Sub(ToEntry(msB.Modules["a"]).Dir["ua"]) == h06Sub(ua), "changing one instance leaves the instance in another module unchanged")
	check(h06Sub(ToEntry(msB.Modules["r"]).Dir["u1"]) == sr, "unrelated module unchanged")
	k3 := bm.Dir["u3"].Dir["k"]
	delete(bm.Dir["u3"].Dir, "k")
	check(h06Sub(bm.Dir["u3"]) == s1, "changing one instance leaves the instance in the list unchanged")
	bm.Dir["u3"].Dir["k"] = k3
	if etext != "" {
		dd := bm.Dir["u1"].Dir["slot"].Dir["dd"]
		check(dd != nil && dd.Dir["hc"] != nil && dd.Dir["hc"].Dir["hl"] != nil, "a use inside an augment of an augmented node is expanded")
		if dd != nil && dd.Dir["hc"] != nil && dd.Dir["hc"].Dir["hl"] != nil {
			check(dd.Namespace().Name == "urn:d", "the augmenting module's node keeps its namespace")
			check(dd.Dir["hc"].Namespace().Name == "urn:e" && dd.Dir["hc"].Dir["hl"].Namespace().Name == "urn:e", "copies belong to the namespace of the module that uses the grouping, also below another module's augment")
			check(bm.Dir["u1"].Dir["slot"].Namespace().Name == "urn:m", "the grouping's own copy stays in its user's namespace")
		}
	}
	if aimLeafDefault {
		check(len(bm.Dir["u1"].Dir["lf"].Default) == 1 && bm.Dir["u1"].Dir["lf"].Default[0] == "9", "the aimed instance did change")
	}
}

// hReplaceNS replaces every occurrence of from by to in s.
func hReplaceNS(s, from, to string) string {
	out := ""
	for i := 0; i < len(s); {
		if i+len(from) <= len(s) && s[i:i+len(from)] == from {
			out += to
			i += len(from)
		} else {
			out += string([]byte{s[i]})
			i++
		}
	}
	return out
}

// H06pfx: a prefixed grouping name is read with the prefix bindings of the file that holds the
// uses statement: module m and its submodule s bind the same prefix p to two different modules,
// each of which defines a grouping g. Which module is bound where, the written order of include
// and import, and whether the use sits directly in a container or inside another grouping are
// symbolic.
func H06pfx() {
	mx, my := "x", "y"
	if symBool() {
		mx, my = "y", "x"
	}
	head := `include s; import ` + mx + ` { prefix p; } `
	if symBool() {
		head = `import ` + mx + ` { prefix p; } include s; `
	}
	use := `container c { uses p:g; } `
	nested := symBool()
	if nested {
		use = `grouping outer { uses p:g; } container c { uses outer; } `
	}
	m := `module m { namespace "urn:m"; prefix m; ` + head + use + `}`
	s := `submodule s { belongs-to m { prefix m; } import ` + my + ` { prefix p; } container sc { uses p:g; } }`
	x := `module x { namespace "urn:x"; prefix x; grouping g { leaf fromx { type string; } } }`
	y := `module y { namespace "urn:y"; prefix y; grouping g { leaf fromy { type int8; } } }`
	note(m + s)
	ms, lerrs := hLoad(m, s, x, y)
	check(len(lerrs) == 0, "the modules parse")
	errs := ms.Process()
	check(len(errs) == 0, "the modules process")
	if len(errs) > 0 {
		return
	}
	reach("processed")
	hWF(ms)
	em := ToEntry(ms.Modules["m"])
	c, sc := em.Dir["c"], em.Dir["sc"]
	check(c != nil && sc != nil, "using nodes exist")
	if c == nil || sc == nil {
		return
	}
	check(len(c.Dir) == 1 && c.Dir["from"+mx] != nil, "a prefixed grouping name in the module is read with the module's own import of that prefix")
	check(len(sc.Dir) == 1 && sc.Dir["from"+my] != nil, "a prefixed grouping name in the submodule is read with the submodule's own import of that prefix")
}


// H06io: a grouping defined directly inside an rpc input, an rpc output, an action input/output
// or a notification, used there and one level below: the uses finds it (lexical scope of the
// definition site) and expands it, with the unprefixed and the own-prefixed spelling.
func H06io() {
	site := symChoice(5)
	name := []string{"gi", "m:gi"}[symChoice(2)]
	inner := `grouping gi { leaf il { type int8; } } uses ` + name + `; container ic { uses ` + name + `; } `
	var body string
	switch site {
	case 0:
		body = `rpc r { input { ` + inner + `} } `
	case 1:
		body = `rpc r { output { ` + inner + `} } `
	case 2:
		body = `container c { action a { input { ` + inner + `} } } `
	case 3:
		body = `container c { action a { output { ` + inner + `} } } `
	case 4:
		body = `notification n { ` + inner + `} `
	}
	m := `module m { yang-version 1.1; namespace "urn:m"; prefix m; grouping unrelated { leaf ul { type string; } } ` + body + `}`
	note(m)
	ms, lerrs := hLoad(m)
	check(len(lerrs) == 0, "the module parses")
	errs := ms.Process()
	check(len(errs) == 0, "a grouping defined in an input, output or notification is found by a uses below it")
	if len(errs) > 0 {
		return
	}
	reach("processed")
	hWF(ms)
	em := ToEntry(ms.Modules["m"])
	var at *Entry
	switch site {
	case 0:
		at = em.Dir["r"].RPC.Input
	case 1:
		at = em.Dir["r"].RPC.Output
	case 2:
		at = em.Dir["c"].Dir["a"].RPC.Input
	case 3:
		at = em.Dir["c"].Dir["a"].RPC.Output
	case 4:
		at = em.Dir["n"]
	}
	check(at != nil && at.Dir["il"] != nil && at.Dir["il"].Type.Kind == Yint8, "the using node receives a copy of every node the grouping defines")
	check(at != nil && at.Dir["ic"] != nil && at.Dir["ic"].Dir["il"] != nil && at.Dir["ic"].Dir["il"] != at.Dir["il"], "a second use one level below receives its own copy")
	check(at != nil && len(at.Dir) == 2, "nothing else")
}
