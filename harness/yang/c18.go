package yang

// C18 - re-processing, incremental loading and failed loads do not skew results.
// Units: modules.go Parse/Process/add/ClearEntryCache, ast.go (typedef registration during
// build), types.go (memoised types), identity.go. Oracle: the batch run of the good texts
// loaded so far on a fresh set, inside the same path (self-composition).

const (
	h18G1 = iota // good module
	h18G2        // good module importing g1 (typedef, augment, identity across modules)
	h18E1        // loads fine, processing reports an error (bad range)
	h18B1        // syntax error
	h18B2        // rejected statement after a scoped typedef with an unknown type was registered
	h18B3        // a module named like g1 that is rejected (duplicate name / broken variant)
	h18B4        // rejected statement after a scoped typedef with a good type was registered
	h18E2        // loads fine, processing reports an error through a typedef chain
	h18G3        // good module importing g2: third link of an identity chain
	h18P         // process
	h18N
)

var h18Text = []string{
	`module g1 { namespace "urn:g1"; prefix g1; typedef t { type int8; } container c { leaf l { type t; } } identity i1; }`,
	`module g2 { namespace "urn:g2"; prefix g2; import g1 { prefix g1; } leaf x { type g1:t; } augment /g1:c { leaf a { type string; } } identity i2 { base g1:i1; } leaf r { type identityref { base g1:i1; } } }`,
	`module e1 { namespace "urn:e1"; prefix e1; leaf y { type int8 { range "5..1"; } } }`,
	`module b1 { namespace "urn:b1"; prefix b1; leaf x { type string; }`,
	`module b2 { namespace "urn:b2"; prefix b2; container c { typedef tt { type nosuch; } } bogus-statement x; }`,
	`module g1 { namespace "urn:g1"; prefix g1; typedef t { type string; } leaf q { type t; } bogus-statement x; }`,
	`module b4 { namespace "urn:b4"; prefix b4; container c { typedef tt { type string; } leaf l { type tt; } } bogus-statement x; }`,
	`module e2 { namespace "urn:e2"; prefix e2; typedef outer { type inner; } typedef inner { type does-not-exist; } leaf z { type outer; } }`,
	`module g3 { namespace "urn:g3"; prefix g3; import g2 { prefix g2; } identity i3 { base g2:i2; } leaf w { type string; } }`,
}

func H18() {
	n := param("n")
	hNoFiles()
	ms := NewModules()
	var good []int // good texts accepted so far, in load order
	seenB2, seenE1AndP, lateG1, dupGood := false, false, false, false
	processed := false
	loadedE1 := false
	nP := 0
	for step := 0; step <= n; step++ {
		op := h18P
		if step < n {
			op = symChoice(h18N)
		}
		if op != h18P {
			err := ms.Parse(h18Text[op], "t"+string([]byte{'0' + byte(op)})+".yang")
			isGood := op == h18G1 || op == h18G2 || op == h18E1 || op == h18E2 || op == h18G3
			already := false
			for _, g := range good {
				if g == op {
					already = true
				}
			}
			if isGood && !already {
				check(err == nil, "a good text loads")
				good = append(good, op)
				if op == h18G1 && processed {
					lateG1 = true
				}
				if op == h18E1 {
					loadedE1 = true
				}
			} else {
				check(err != nil, "a bad text (or the same module again) is rejected")
				if isGood {
					dupGood = true
				}
			}
			if op == h18B2 {
				seenB2 = true
			}
			continue
		}
		// process, and compare with the batch run of the good texts on a fresh set
		errs := ms.Process()
		nP++
		if loadedE1 && nP >= 2 {
			seenE1AndP = true
		}
		processed = true
		ref := NewModules()
		for _, g := range good {
			check(ref.Parse(h18Text[g], "t"+string([]byte{'0' + byte(g)})+".yang") == nil, "reference load")
		}
		rerrs := ref.Process()
		reach("compared")
		// known findings (DESIGN section 7): typedefs of a rejected module stay registered;
		// errors found after a type was memoised are not reported again by a second Process;
		// a module loaded after a Process that other modules were already bound without
		known := symOr(seenB2, seenE1AndP)
		_ = lateG1
		_ = dupGood
		sig := "history-leaves-trace"
		checkKF(hErrs(errs) == hErrs(rerrs), "after any history the errors equal those of the batch run of the good texts on a fresh set", known, sig)
		if len(errs) == 0 && len(rerrs) == 0 {
			checkKF(hDump(ms) == hDump(ref), "after any history the trees equal those of the batch run of the good texts on a fresh set", known, sig)
		}
	}
}

// ---- H18rev: a newer revision that arrives after a processing run. No typedef is involved (the
// memoised-type trace of history is a known finding of H18): the revisions differ in a grouping and
// in their data nodes; an importer without revision-date uses the grouping and augments the module.
var h18revText = []string{
	`module lib { namespace "urn:lib"; prefix lib; revision 2019-01-01; grouping gp { leaf old { type string; } } container c { leaf c19 { type string; } } }`,
	`module lib { namespace "urn:lib"; prefix lib; revision 2020-06-15; grouping gp { leaf new { type int8; } } container c { leaf c20 { type string; } } }`,
	`module user { namespace "urn:user"; prefix user; import lib { prefix l; } container uc { uses l:gp; } grouping wrap { uses l:gp; leaf own { type string; } } container uw { uses wrap; } augment /l:c { leaf ua { type string; } } }`,
	`module pin { namespace "urn:pin"; prefix pin; import lib { prefix l; revision-date 2019-01-01; } container pc { uses l:gp; } }`,
}

func H18rev() {
	n := param("n")
	hNoFiles()
	ms := NewModules()
	var good []int
	for step := 0; step <= n; step++ {
		op := len(h18revText)
		if step < n {
			op = symChoice(len(h18revText) + 1)
		}
		if op < len(h18revText) {
			err := ms.Parse(h18revText[op], "r"+string([]byte{'0' + byte(op)})+".yang")
			already := false
			for _, g := range good {
				already = already || g == op
			}
			if already {
				check(err != nil, "the same module and revision again is rejected")
			} else {
				check(err == nil, "a good text loads")
				good = append(good, op)
			}
			continue
		}
		errs := ms.Process()
		ref := NewModules()
		for _, g := range good {
			check(ref.Parse(h18revText[g], "r"+string([]byte{'0' + byte(g)})+".yang") == nil, "reference load")
		}
		rerrs := ref.Process()
		reach("compared")
		// C13: an import without revision-date denotes the latest loaded revision, one with a
		// revision-date exactly that revision - whenever the revisions arrived
		if u := ms.Modules["user"]; u != nil && len(errs) == 0 {
			check(u.Import[0].Module != nil && u.Import[0].Module == ms.Modules["lib"], "an import without revision-date denotes the loaded module with the latest revision")
			if m20 := ms.Modules["lib@2020-06-15"]; m20 != nil {
				check(ms.Modules["lib"] == m20, "the bare name denotes the latest revision")
			}
		}
		if p := ms.Modules["pin"]; p != nil && len(errs) == 0 && ms.Modules["lib@2019-01-01"] != nil {
			check(p.Import[0].Module != nil && p.Import[0].Module == ms.Modules["lib@2019-01-01"], "an import with a revision-date denotes exactly that revision")
		}
		check(hErrs(errs) == hErrs(rerrs), "after any history the errors equal those of the batch run of the good texts on a fresh set (revisions arriving late)")
		if len(errs) == 0 && len(rerrs) == 0 {
			check(hDump(ms) == hDump(ref), "after any history the trees equal those of the batch run of the good texts on a fresh set (revisions arriving late)")
		}
	}
}

// ---- H18disk: modules that a processing run fetches itself from the search path, and files
// that fail to load and are offered again after being repaired. The file system is a harness
// model behind the package's own seams (readFile, scanDir).
func H18disk() {
	n := param("n")
	base := `module base { namespace "urn:base"; prefix base; container c { leaf l { type string; default "d"; } choice ch { leaf s { type string; } } } }`
	user := `module user { namespace "urn:user"; prefix user; import dep { prefix d; } import base { prefix b; } leaf ul { type string; } }`
	deps := []string{
		`module dep { namespace "urn:dep"; prefix dep; import base { prefix b; } augment /b:c { leaf a { type string; } choice k { leaf short { type int8; } } } augment /b:c/b:ch { leaf s2 { type string; } } }`,
		`module dep { namespace "urn:dep"; prefix dep; import base { prefix b; } leaf bad { type string; config maybe; } }`,
		`module dep { namespace "urn:dep"; prefix dep; import base { prefix b; } deviation /b:c/b:l { deviate replace { default "e"; } } }`,
	}
	xbad := `module x { namespace "urn:x"; prefix x; leaf xl { type string; }`
	xbad2 := `module x { namespace "urn:x"; prefix x; leaf xl { type string; } bogus-statement q; }`
	xgood := `module x { namespace "urn:x"; prefix x; leaf xl { type string; } }`
	disk := map[string]string{"dep.yang": deps[symChoice(len(deps))], "x.yang": xbad}
	if symBool() {
		disk["x.yang"] = xbad2
	}
	readFile = func(name string) ([]byte, error) {
		if t, ok := disk[name]; ok {
			return []byte(t), nil
		}
		return nil, errNoFile
	}
	scanDir = func(string, string, bool) string { return "" }
	ms := NewModules()
	type load struct {
		name, text string
	}
	var good []load
	loaded := map[string]bool{}
	for step := 0; step <= n; step++ {
		op := 4
		if step < n {
			op = symChoice(5)
		}
		switch op {
		case 0, 1:
			t, nm := base, "base"
			if op == 1 {
				t, nm = user, "user"
			}
			err := ms.Parse(t, nm+".yang")
			if loaded[nm] {
				check(err != nil, "the same module again is rejected")
			} else {
				check(err == nil, "a good text loads")
				good = append(good, load{nm + ".yang", t})
				loaded[nm] = true
			}
		case 2: // read x from the disk, whatever it holds now
			err := ms.Read("x")
			isGood := disk["x.yang"] == xgood
			if isGood && !loaded["x"] {
				check(err == nil, "a repaired file loads although an earlier offer of it failed")
				good = append(good, load{"x.yang", xgood})
				loaded["x"] = true
			} else {
				check(err != nil, "a bad file (or the same module again) is rejected")
			}
		case 3: // repair x on the disk
			disk["x.yang"] = xgood
		case 4:
			errs := ms.Process()
			d1 := ""
			if len(errs) == 0 {
				d1 = hDump(ms)
			}
			// processing twice gives the same as processing once - also for modules that the first
			// run fetched itself
			errs2 := ms.Process()
			check(hErrs(errs) == hErrs(errs2), "processing a set twice gives the same errors as processing it once")
			if len(errs) == 0 && len(errs2) == 0 {
				check(hDump(ms) == d1, "processing a set twice gives the same trees as processing it once")
			}
			// batch run on a fresh set: the accepted texts, and explicitly the module the run fetched
			ref := NewModules()
			for _, g := range good {
				check(ref.Parse(g.text, g.name) == nil, "reference load")
			}
			if ms.Modules["dep"] != nil {
				check(ref.Read("dep") == nil, "reference reads the fetched module")
			}
			rerrs := ref.Process()
			reach("compared")
			check(hErrs(errs2) == hErrs(rerrs), "after any history the errors equal those of the batch run on a fresh set (modules fetched during processing, files repaired after a failed load)")
			if len(errs2) == 0 && len(rerrs) == 0 {
				check(hDump(ms) == hDump(ref), "after any history the trees equal those of the batch run on a fresh set (modules fetched during processing, files repaired after a failed load)")
			}
		}
	}
}
