package yang

// C18 - re-processing, incremental loading and failed loads do not skew results.
// Units: modules.go Parse/Process/add/ClearEntryCache, ast.go (typedef registration during
// build), types.go (memoised types), identity.go. Oracle: the batch run of the good texts
// loaded so far on a fresh set, inside the same path (self-composition).

const (
	h18G1 = iota // good module
	h18G2        // good module importing g1 (typedef, augment, identity across modules)
	h18E1        // loads fine, processing reports an error (bad range)
	h18B1        // syntax error
	h18B2        // rejected statement after a scoped typedef with an unknown type was registered
	h18B3        // a module named like g1 that is rejected (duplicate name / broken variant)
	h18B4        // rejected statement after a scoped typedef with a good type was registered
	h18E2        // loads fine, processing reports an error through a typedef chain
	h18G3        // good module importing g2: third link of an identity chain
	h18P         // process
	h18N
)

var h18Text = []string{
	`module g1 { namespace "urn:g1"; prefix g1; typedef t { type int8; } container c { leaf l { type t; } } identity i1; }`,
	`module g2 { namespace "urn:g2"; prefix g2; import g1 { prefix g1; } leaf x { type g1:t; } augment /g1:c { leaf a { type string; } } identity i2 { base g1:i1; } leaf r { type identityref { base g1:i1; } } }`,
	`module e1 { namespace "urn:e1"; prefix e1; leaf y { type int8 { range "5..1"; } } }`,
	`module b1 { namespace "urn:b1"; prefix b1; leaf x { type string; }`,
	`module b2 { namespace "urn:b2"; prefix b2; container c { typedef tt { type nosuch; } } bogus-statement x; }`,
	`module g1 { namespace "urn:g1"; prefix g1; typedef t { type string; } leaf q { type t; } bogus-statement x; }`,
	`module b4 { namespace "urn:b4"; prefix b4; container c { typedef tt { type string; } leaf l { type tt; } } bogus-statement x; }`,
	`module e2 { namespace "urn:e2"; prefix e2; typedef outer { type inner; } typedef inner { type does-not-exist; } leaf z { type outer; } }`,
	`module g3 { namespace "urn:g3"; prefix g3; import g2 { prefix g2; } identity i3 { base g2:i2; } leaf w { type string; } }`,
}

func H18() {
	n := param("n")
	hNoFiles()
	ms := NewModules()
	var good []int // good texts accepted so far, in load order
	seenB2, seenE1AndP, lateG1, dupGood := false, false, false, false
	processed := false
	loadedE1 := false
	nP := 0
	for step := 0; step <= n; step++ {
		op := h18P
		if step < n {
			op = symChoice(h18N)
		}
		if op != h18P {
			err := ms.Parse(h18Text[op], "t"+string([]byte{'0' + byte(op)})+".yang")
			isGood := op == h18G1 || op == h18G2 || op == h18E1 || op == h18E2 || op == h18G3
			already := false
			for _, g := range good {
				if g == op {
					already = true
				}
			}
			if isGood && !already {
				check(err == nil, "a good text loads")
				good = append(good, op)
				if op == h18G1 && processed {
					lateG1 = true
				}
				if op == h18E1 {
					loadedE1 = true
				}
			} else {
				check(err != nil, "a bad text (or the same module again) is rejected")
				if isGood {
					dupGood = true
				}
			}
			if op == h18B2 {
				seenB2 = true
			}
			continue
		}
		// process, and compare with the batch run of the good texts on a fresh set
		errs := ms.Process()
		nP++
		if loadedE1 && nP >= 2 {
			seenE1AndP = true
		}
		processed = true
		ref := NewModules()
		for _, g := range good {
			check(ref.Parse(h18Text[g], "t"+string([]byte{'0' + byte(g)})+".yang") == nil, "reference load")
		}
		rerrs := ref.Process()
		reach("compared")
		// known findings (DESIGN section 7): typedefs of a rejected module stay registered;
		// errors found after a type was memoised are not reported again by a second Process;
		// a module loaded after a Process that other modules were already bound without
		known := symOr(seenB2, seenE1AndP)
		_ = lateG1
		_ = dupGood
		sig := "history-leaves-trace"
		checkKF(hErrs(errs) == hErrs(rerrs), "after any history the errors equal those of the batch run of the good texts on a fresh set", known, sig)
		if len(errs) == 0 && len(rerrs) == 0 {
			checkKF(hDump(ms) == hDump(ref), "after any history the trees equal those of the batch run of the good texts on a fresh set", known, sig)
		}
	}
}
