package yang

// C01 - no input can crash, overflow or hang the loader and resolver.
// Decided by the engine's implicit checks: every panic edge of Go (nil dereference, index and
// slice bounds, nil-map write, failed type assertion, explicit panic) that is feasible on a path
// is a finding, and a call-depth or step budget that is hit is a non-termination candidate
// confirmed natively under a time limit. The harnesses only drive the code; their explicit
// checks are "returned, and malformed input was reported through an error".
// Every other pipeline harness (C03..C18) contributes its universe to this property as well.

func h01Text(n int, alphabet string) string {
	b := make([]byte, n)
	for i := range b {
		c := symByte()
		in := false
		for j := 0; j < len(alphabet); j++ {
			in = symOr(in, c == alphabet[j])
		}
		assume(in)
		b[i] = c
	}
	return string(b)
}

// H01num: the number and range parsers on every short string over the characters they look at.
func H01num() {
	s := h01Text(param("n"), "019+-.| maxin_")
	note(s)
	_, e1 := ParseInt(s)
	_, e2 := ParseDecimal(s, uint8(1+symChoice(2)*17))
	r3, e3 := ParseRangesInt(s)
	r4, e4 := ParseRangesDecimal(s, 2)
	if e3 == nil {
		_ = r3.String()
	}
	if e4 == nil {
		_ = r4.String()
	}
	_, _ = e1, e2
	reach("returned")
}

// H01res: reference structures that must end in returned errors, never in a crash or a hang:
// groupings that use themselves directly or from inside nested nodes, include and import
// cycles, augments of every kind of target, absent modules.
func H01res() {
	// the three groups of mechanisms are varied one group at a time (the others at their first
	// choice), plus one run of everything against everything for the first two choices of each
	mode := symChoice(4)
	pick := func(group int, n int) int {
		if mode == group {
			return symChoice(n)
		}
		if mode == 3 && n > 2 {
			return symChoice(2)
		}
		if mode == 3 {
			return symChoice(n)
		}
		return 0
	}
	wrap := func(kind int, inner string) string {
		switch kind {
		case 1:
			return "container w { " + inner + " } "
		case 2:
			return "list w { key k; leaf k { type string; } " + inner + " } "
		case 3:
			return "choice w { case x { " + inner + " } } "
		}
		return inner + " "
	}
	uses := func() string {
		// (the first choice of every group is a benign one, so that varying one group is not
		// cut short by an error of another)
		switch pick(0, 7) {
		case 1:
			return "uses ga { when \"1\"; if-feature ff; }" // a uses with substatements of its own that closes a cycle
		case 2:
			return "uses gb;"
		case 3:
			return "uses m:ga;"
		case 4:
			return "uses nowhere { status current; reference r; }" // defined nowhere: the search runs through every include and import
		case 5:
			return "uses ab:g;" // through the prefix of an import (absent or not written at all)
		case 6:
			return "uses n:gx;"
		}
		return "leaf plain { type string; }"
	}
	ga := "grouping ga { " + wrap(pick(0, 4), uses()) + "} "
	gb := "grouping gb { " + wrap(pick(0, 4), uses()) + "} "
	targets := []string{"/m:c", "/m:ll", "/m:lf", "/m:ls", "/m:ch", "/m:ch/m:cs", "/m:r", "/m:r/m:input", "/m:r/m:output", "/m:nt", "/m:ad", "/m:missing", "/m:c/m:deep/m:er", "/zz:c"}
	aug := "augment " + targets[pick(1, len(targets))] + " { " + []string{"leaf added { type string; }", "container added { leaf in { type string; } }", "uses ga;", "case ac { leaf added { type string; } }"}[pick(1, 4)] + " } "
	// (the last option: mutually including submodules AND a type that no file defines, so that the
	// typedef lookup walks the whole include cycle)
	inc := []string{"", "include s1; ", "include s1; include s2; ", "include nosuch; ", "include sx; ", "include s1; include s2; leaf tl { type defined-nowhere; } typedef tn { type m:also-nowhere; } "}[pick(2, 6)]
	imp := []string{"", "import n { prefix n; } ", "import absent { prefix ab; } "}[pick(2, 3)]
	m := `module m { yang-version 1.1; namespace "urn:m"; prefix m; ` + inc + imp + ga + gb +
		`leaf lf { type string; } leaf-list ll { type string; } container c { leaf x { type string; } } list ls { key k; leaf k { type string; } } ` +
		`choice ch { case cs { leaf y { type string; } } } rpc r { input { leaf i { type string; } } } notification nt { leaf n { type string; } } anydata ad; ` +
		`container u { uses ga; } ` + aug + `}`
	s1 := `submodule s1 { yang-version 1.1; belongs-to m { prefix m; } include s2; container from-s1 { uses gb; } }`
	s2 := `submodule s2 { yang-version 1.1; belongs-to m { prefix m; } include s1; leaf from-s2 { type string; } }`
	n := `module n { yang-version 1.1; namespace "urn:n"; prefix n; import m { prefix m; } container nc { uses m:ga; } }`
	note(m)
	hNoFiles()
	ms := NewModules()
	ms.ParseOptions.IgnoreSubmoduleCircularDependencies = pick(2, 2) == 1
	// a submodule that says it belongs to a module that is not loaded (included by m all the same)
	sx := `submodule sx { yang-version 1.1; belongs-to other { prefix o; } identity i; grouping gx { leaf y { type string; } } typedef tx { type string; } leaf from-sx { type tx; } }`
	for i, t := range []string{m, s1, s2, n, sx} {
		ms.Parse(t, "f"+string([]byte{'0' + byte(i)})+".yang")
	}
	errs := ms.Process()
	reach("returned")
	// the tree walker runs before the read-back: lookups with an unresolvable prefix record an
	// error on the root entry by design, which is not an error of processing
	if len(errs) == 0 {
		hWF(ms)
	}
	// read-back of whatever came back
	for _, e := range errs {
		_ = e.Error()
	}
	for _, k := range hModuleNames(ms) {
		e := ToEntry(ms.Modules[k])
		_ = e.GetErrors()
		var walk func(x *Entry, d int)
		walk = func(x *Entry, d int) {
			if x == nil || d > 12 {
				return
			}
			_ = x.Path()
			_ = x.ReadOnly()
			_ = x.Namespace()
			_, _ = x.InstantiatingModule()
			_ = x.DefaultValues()
			_ = x.Find("/m:c/m:x")
			_ = x.Find("../..")
			for _, c := range hSortedDir(x.Dir) {
				walk(x.Dir[c], d+1)
			}
			if x.RPC != nil {
				walk(x.RPC.Input, d+1)
				walk(x.RPC.Output, d+1)
			}
		}
		walk(e, 0)
	}
}

// H01hist: a rejected submodule whose scoped typedef stays registered, then processing.
func H01hist() {
	hNoFiles()
	ms := NewModules()
	ty := []string{"nosuch", "m:nosuch", "string", "zz:t", "identityref { base foo; }", "leafref { path \"../x\"; }", "union { type nosuch; type string; }", "p:t", "p:nosuch"}[symChoice(9)]
	term := "; "
	if ty[len(ty)-1] == '}' {
		term = " "
	}
	bad := `submodule sb { belongs-to m { prefix m; } container c { typedef tt { type ` + ty + term + `} leaf l { type tt; } } bogus-statement x; }`
	switch symChoice(4) {
	case 1:
		// the same in a rejected module instead of a rejected submodule (it imports the loaded module p)
		bad = `module mb { namespace "urn:mb"; prefix mb; import p { prefix p; } container c { typedef tt { type ` + ty + term + `} leaf l { type tt; } } bogus-statement x; }`
	case 2:
		// a text whose top-level statement is no module at all, rejected after its typedef was registered
		bad = `grouping gr { typedef tt { type ` + ty + term + `} leaf l { type tt; } }`
	case 3:
		bad = `container cr { typedef tt { type ` + ty + term + `} }`
	}
	good := `module m { namespace "urn:m"; prefix m; leaf ok { type string; } }`
	pmod := `module p { namespace "urn:p"; prefix p; typedef t { type string; } }`
	if symBool() {
		ms.Parse(bad, "sb.yang")
		ms.Parse(good, "m.yang")
		ms.Parse(pmod, "p.yang")
	} else {
		ms.Parse(pmod, "p.yang")
		ms.Parse(good, "m.yang")
		ms.Parse(bad, "sb.yang")
	}
	errs := ms.Process()
	_ = hErrs(errs)
	errs = ms.Process()
	_ = hErrs(errs)
	for _, k := range hModuleNames(ms) {
		_ = hDumpTree(ToEntry(ms.Modules[k]), "")
	}
	reach("returned")
}

// H01bytes: generic parsing of every byte string of n bytes over ALL 256 byte values (invalid
// UTF-8 included): returns, with statements or an error, never a panic or a hang.
func H01bytes() {
	n := param("n")
	b := make([]byte, n)
	for i := range b {
		b[i] = symByte()
	}
	ss, err := Parse(string(b), "f")
	if err != nil {
		reach("rejected")
		check(len(ss) == 0, "on rejection no statements are returned")
		return
	}
	reach("accepted")
	for _, s := range ss {
		_ = s.Location()
		_ = s.Keyword
	}
}


// H01dev: read access to the deviation entries a processed module carries (Entry.Deviations is
// part of what comes back): every accessor returns.
func H01dev() {
	kind := []string{"add { default a; }", "not-supported;", "replace { type int8; }", "delete { units u; }"}[symChoice(4)]
	target := []string{"/m:x", "/m:missing", "/zz:x"}[symChoice(3)]
	m := `module m { namespace "urn:m"; prefix m; leaf x { type string; } container c { leaf y { type string; } } deviation ` + target + ` { deviate ` + kind + ` } }`
	note(m)
	ms, lerrs := hLoad(m)
	if len(lerrs) > 0 {
		reach("returned")
		return
	}
	errs := ms.Process()
	_ = hErrs(errs)
	e := ToEntry(ms.Modules["m"])
	for _, d := range e.Deviations {
		if d == nil {
			continue
		}
		_ = d.Find("/m:x")
		_ = d.Find("../x")
		_ = d.Find("c/y")
		_ = d.Path()
		_ = d.Namespace()
		_ = d.ReadOnly()
		_, _ = d.InstantiatingModule()
		_ = d.Modules()
		_ = d.GetErrors()
		_ = d.DefaultValues()
		for _, dv := range d.Deviate {
			for _, x := range dv {
				if x != nil {
					_ = x.Path()
					_ = x.Find("/m:x")
					_ = x.Namespace()
				}
			}
		}
	}
	reach("returned")
}
