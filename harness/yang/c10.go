package yang

import "strconv"

// C10 - range and length restrictions denote the written set and only ever narrow.
// Units: types_builtin.go parseChildRanges, coalesce, YangRange.{Sort,Less,Contains,Validate},
// Number.{Less,addQuantum}. The number tokens of the restriction string are placeholders:
// ParseInt/ParseDecimal are redirected (engine side only) to h10Stub*, which return fresh
// symbolic Numbers - "returns exactly the number the token denotes" is what C15 establishes
// for the real parsers. Natively the placeholders are replaced by the printed model values and
// the real parsers run. Oracle: integer interval semantics over mInt (mantissas at one fd).

var h10Nums []Number

func h10NewNumber(fd uint8) Number {
	n := Number{Value: symU64(), Negative: symBool(), FractionDigits: fd}
	if fd > 0 {
		// what ParseDecimal can return: a signed 64-bit mantissa
		assume(symOr(n.Value <= 1<<63-1, symAnd(n.Negative, n.Value == 1<<63)))
	}
	return n
}

// h10Format prints a number independently of Number.String (native replay only).
func h10Format(n Number) string {
	s := strconv.FormatUint(n.Value, 10)
	if fd := int(n.FractionDigits); fd > 0 {
		for len(s) <= fd {
			s = "0" + s
		}
		s = s[:len(s)-fd] + "." + s[len(s)-fd:]
	}
	if n.Negative {
		s = "-" + s
	}
	return s
}

// h10Tok registers a child endpoint and returns its token.
func h10Tok(fd uint8) string {
	n := h10NewNumber(fd)
	h10Nums = append(h10Nums, n)
	if inEngine() {
		return "#" + string([]byte{'0' + byte(len(h10Nums)-1)})
	}
	return h10Format(n)
}

func h10StubInt(s string) (Number, error) { return h10Nums[int(s[1]-'0')], nil }
func h10StubDec(s string, fd uint8) (Number, error) {
	n := h10Nums[int(s[1]-'0')]
	return n, nil
}

func h10Val(n Number) mInt { return mIte(n.Negative, mNeg(mU(n.Value)), mU(n.Value)) }

type h10Iv struct{ lo, hi mInt }

func h10In(x mInt, v h10Iv) bool { return symAnd(mLe(v.lo, x), mLe(x, v.hi)) }
func h10InAny(x mInt, vs []h10Iv) bool {
	r := false
	for _, v := range vs {
		r = symOr(r, h10In(x, v))
	}
	return r
}

// h10Parent returns an arbitrary parent set of p parts satisfying the representation
// invariant: every part valid, parts strictly ascending, disjoint and not adjacent.
func h10Parent(p int, fd uint8) (YangRange, []h10Iv) {
	var y YangRange
	var ivs []h10Iv
	for i := 0; i < p; i++ {
		lo, hi := h10NewNumber(fd), h10NewNumber(fd)
		iv := h10Iv{h10Val(lo), h10Val(hi)}
		assume(mLe(iv.lo, iv.hi))
		if i > 0 {
			assume(mLess(mAdd(ivs[i-1].hi, mI(1)), iv.lo))
		}
		y = append(y, YRange{lo, hi})
		ivs = append(ivs, iv)
	}
	return y, ivs
}

// H10a: parseChildRanges on every skeleton of k parts against an arbitrary valid parent of
// p parts. fd = 0: integers/lengths (decimal=false); fd in 1..18: decimal64.
// mm: 0 = no min/max keywords, 1 = min/max in every endpoint position.
func H10a() {
	k, p, mm := param("k"), param("p"), param("mm")
	fd := uint8(symRange(param("fdlo"), param("fdhi")))
	h10Nums = nil
	y, yiv := h10Parent(p, fd)
	minV, maxV := yiv[0].lo, yiv[p-1].hi
	var w []h10Iv // written parts
	s := ""
	endpoint := func() (string, mInt) {
		c := 0
		if mm == 1 {
			c = symChoice(3)
		}
		switch c {
		case 1:
			return "min", minV
		case 2:
			return "max", maxV
		}
		t := h10Tok(fd)
		return t, h10Val(h10Nums[len(h10Nums)-1])
	}
	for i := 0; i < k; i++ {
		if i > 0 {
			s += "|"
		}
		t1, v1 := endpoint()
		if symBool() {
			t2, v2 := endpoint()
			s += t1 + ".." + t2
			w = append(w, h10Iv{v1, v2})
		} else {
			s += " " + t1 + " "
			w = append(w, h10Iv{v1, v1})
		}
	}
	note(s)
	r, err := y.parseChildRanges(s, fd != 0, fd)

	// quantifier-free reading of the written set
	allValid := true
	for _, v := range w {
		allValid = symAnd(allValid, mLe(v.lo, v.hi))
	}
	ascDisjoint := true
	for i := 1; i < len(w); i++ {
		ascDisjoint = symAnd(ascDisjoint, mLess(w[i-1].hi, w[i].lo))
	}
	// a contiguous integer interval lies in a union of non-adjacent parts iff it lies in one of them
	subset := true
	for _, v := range w {
		in1 := false
		for _, q := range yiv {
			in1 = symOr(in1, symAnd(mLe(q.lo, v.lo), mLe(v.hi, q.hi)))
		}
		subset = symAnd(subset, in1)
	}
	if err != nil {
		reach("rejected")
		check(symNot(symAnd(allValid, symAnd(ascDisjoint, subset))),
			"a restriction with valid, ascending, disjoint parts inside the parent set is accepted")
		return
	}
	reach("accepted")
	check(allValid, "a part whose bounds are out of order is rejected")
	check(subset, "a restriction admitting a value its parent does not is rejected")
	var riv []h10Iv
	for _, q := range r {
		check(int(q.Min.FractionDigits) == int(fd) && int(q.Max.FractionDigits) == int(fd), "result keeps the fraction-digits")
		riv = append(riv, h10Iv{h10Val(q.Min), h10Val(q.Max)})
	}
	check(len(riv) >= 1, "result is not empty")
	for i, v := range riv {
		check(mLe(v.lo, v.hi), "result parts are valid")
		if i > 0 {
			check(mLess(mAdd(riv[i-1].hi, mI(1)), v.lo), "result is sorted, disjoint and coalesced")
		}
	}
	// one universally quantified member x
	x := h10Val(Number{Value: symU64(), Negative: symBool()})
	check(h10InAny(x, w) == h10InAny(x, riv), "value set of the result == the written set (for every x)")
	check(symOr(symNot(h10InAny(x, riv)), h10InAny(x, yiv)), "result is a subset of the parent set (for every x)")
}
