package yang

import "strconv"

// C10 - range and length restrictions denote the written set and only ever narrow.
// Units: types_builtin.go parseChildRanges, coalesce, YangRange.{Sort,Less,Contains,Validate},
// Number.{Less,addQuantum}. The number tokens of the restriction string are placeholders:
// ParseInt/ParseDecimal are redirected (engine side only) to h10Stub*, which return fresh
// symbolic Numbers - "returns exactly the number the token denotes" is what C15 establishes
// for the real parsers. Natively the placeholders are replaced by the printed model values and
// the real parsers run. Oracle: integer interval semantics over mInt (mantissas at one fd).

var h10Nums []Number

func h10NewNumber(fd uint8) Number {
	n := Number{Value: symU64(), Negative: symBool(), FractionDigits: fd}
	if fd > 0 {
		// what ParseDecimal can return: a signed 64-bit mantissa
		assume(symOr(n.Value <= 1<<63-1, symAnd(n.Negative, n.Value == 1<<63)))
	}
	return n
}

// h10Format prints a number independently of Number.String (native replay only).
func h10Format(n Number) string {
	s := strconv.FormatUint(n.Value, 10)
	if fd := int(n.FractionDigits); fd > 0 {
		for len(s) <= fd {
			s = "0" + s
		}
		s = s[:len(s)-fd] + "." + s[len(s)-fd:]
	}
	if n.Negative {
		s = "-" + s
	}
	return s
}

// h10Tok registers a child endpoint and returns its token.
func h10Tok(fd uint8) string {
	n := h10NewNumber(fd)
	h10Nums = append(h10Nums, n)
	if inEngine() {
		return "#" + string([]byte{'0' + byte(len(h10Nums)-1)})
	}
	return h10Format(n)
}

func h10StubInt(s string) (Number, error) { return h10Nums[int(s[1]-'0')], nil }
func h10StubDec(s string, fd uint8) (Number, error) {
	n := h10Nums[int(s[1]-'0')]
	return n, nil
}

func h10Val(n Number) mInt { return mIte(n.Negative, mNeg(mU(n.Value)), mU(n.Value)) }

type h10Iv struct{ lo, hi mInt }

func h10In(x mInt, v h10Iv) bool { return symAnd(mLe(v.lo, x), mLe(x, v.hi)) }
func h10InAny(x mInt, vs []h10Iv) bool {
	r := false
	for _, v := range vs {
		r = symOr(r, h10In(x, v))
	}
	return r
}

// h10Parent returns an arbitrary parent set of p parts satisfying the representation
// invariant: every part valid, parts strictly ascending, disjoint and not adjacent.
func h10Parent(p int, fd uint8) (YangRange, []h10Iv) {
	var y YangRange
	var ivs []h10Iv
	for i := 0; i < p; i++ {
		lo, hi := h10NewNumber(fd), h10NewNumber(fd)
		iv := h10Iv{h10Val(lo), h10Val(hi)}
		assume(mLe(iv.lo, iv.hi))
		if i > 0 {
			assume(mLess(mAdd(ivs[i-1].hi, mI(1)), iv.lo))
		}
		y = append(y, YRange{lo, hi})
		ivs = append(ivs, iv)
	}
	return y, ivs
}

// H10a: parseChildRanges on every skeleton of k parts against an arbitrary valid parent of
// p parts. fd = 0: integers/lengths (decimal=false); fd in 1..18: decimal64.
// mm: 0 = no min/max keywords, 1 = min/max in every endpoint position.
func H10a() {
	k, p, mm := param("k"), param("p"), param("mm")
	fd := uint8(symRange(param("fdlo"), param("fdhi")))
	h10Nums = nil
	y, yiv := h10Parent(p, fd)
	minV, maxV := yiv[0].lo, yiv[p-1].hi
	var w []h10Iv // written parts
	s := ""
	endpoint := func() (string, mInt) {
		c := 0
		if mm == 1 {
			c = symChoice(3)
		}
		switch c {
		case 1:
			return "min", minV
		case 2:
			return "max", maxV
		}
		t := h10Tok(fd)
		return t, h10Val(h10Nums[len(h10Nums)-1])
	}
	for i := 0; i < k; i++ {
		if i > 0 {
			s += "|"
		}
		t1, v1 := endpoint()
		if symBool() {
			t2, v2 := endpoint()
			s += t1 + ".." + t2
			w = append(w, h10Iv{v1, v2})
		} else {
			s += " " + t1 + " "
			w = append(w, h10Iv{v1, v1})
		}
	}
	note(s)
	h10Judge(y, yiv, s, w, fd)
}

// h10Judge runs parseChildRanges for the written parts w (text s) under parent y and checks the
// outcome against the interval oracle.
func h10Judge(y YangRange, yiv []h10Iv, s string, w []h10Iv, fd uint8) {
	r, err := y.parseChildRanges(s, fd != 0, fd)

	// quantifier-free reading of the written set
	allValid := true
	for _, v := range w {
		allValid = symAnd(allValid, mLe(v.lo, v.hi))
	}
	ascDisjoint := true
	for i := 1; i < len(w); i++ {
		ascDisjoint = symAnd(ascDisjoint, mLess(w[i-1].hi, w[i].lo))
	}
	// a contiguous integer interval lies in a union of non-adjacent parts iff it lies in one of them
	subset := true
	for _, v := range w {
		in1 := false
		for _, q := range yiv {
			in1 = symOr(in1, symAnd(mLe(q.lo, v.lo), mLe(v.hi, q.hi)))
		}
		subset = symAnd(subset, in1)
	}
	if err != nil {
		reach("rejected")
		check(symNot(symAnd(allValid, symAnd(ascDisjoint, subset))),
			"a restriction with valid, ascending, disjoint parts inside the parent set is accepted")
		return
	}
	reach("accepted")
	check(allValid, "a part whose bounds are out of order is rejected")
	check(subset, "a restriction admitting a value its parent does not is rejected")
	var riv []h10Iv
	for _, q := range r {
		check(int(q.Min.FractionDigits) == int(fd) && int(q.Max.FractionDigits) == int(fd), "result keeps the fraction-digits")
		riv = append(riv, h10Iv{h10Val(q.Min), h10Val(q.Max)})
	}
	check(len(riv) >= 1, "result is not empty")
	for i, v := range riv {
		check(mLe(v.lo, v.hi), "result parts are valid")
		if i > 0 {
			check(mLess(mAdd(riv[i-1].hi, mI(1)), v.lo), "result is sorted, disjoint and coalesced")
		}
	}
	// one universally quantified member x
	x := h10Val(Number{Value: symU64(), Negative: symBool()})
	check(h10InAny(x, w) == h10InAny(x, riv), "value set of the result == the written set (for every x)")
	check(symOr(symNot(h10InAny(x, riv)), h10InAny(x, yiv)), "result is a subset of the parent set (for every x)")
}


// H10b: the same restriction text under two different parents in succession: the second
// outcome must be what the second parent demands, whatever the first call was (a restriction
// is judged against its own parent at every step of every chain; nothing may be remembered).
func H10b() {
	fd := uint8(symRange(param("fdlo"), param("fdhi")))
	h10Nums = nil
	y1, yiv1 := h10Parent(2, fd)
	y2, yiv2 := h10Parent(2, fd)
	// the two parents agree in their lowest and highest value but not necessarily in between
	if symBool() {
		assume(symAnd(mEq(yiv1[0].lo, yiv2[0].lo), mEq(yiv1[1].hi, yiv2[1].hi)))
	}
	t1, t2 := h10Tok(fd), h10Tok(fd)
	s := t1 + ".." + t2
	w := []h10Iv{{h10Val(h10Nums[0]), h10Val(h10Nums[1])}}
	_, _ = yiv1, y1
	y1.parseChildRanges(s, fd != 0, fd)
	note(s)
	h10Judge(y2, yiv2, s, w, fd)
}

// ---- H10syn: the real number parsers on well-formed, malformed and leniently spelled tokens.

type h10Tmpl struct {
	t       string // D: a symbolic digit 1..9, Z: a symbolic digit 0..9, other characters literal
	intOK   bool   // well-formed as an integer bound (RFC 7950 integer-value)
	decOK   bool   // well-formed as a decimal64 bound (integer-value or decimal-value)
	lenient bool   // not RFC syntax, but a spelling the library documents as accepted (sign +, base prefixes, leading zero, underscores)
}

var h10Tmpls = []h10Tmpl{
	{"D", true, true, false}, {"DZ", true, true, false}, {"-D", true, true, false}, {"0", true, true, false}, {"-DZ", true, true, false},
	{"D.Z", false, true, false}, {"-D.ZZ", false, true, false}, {"0.Z", false, true, false}, {"DZ.Z", false, true, false},
	{"", false, false, false}, {"-", false, false, false}, {"D.", false, false, false}, {".Z", false, false, false}, {"D.Z.Z", false, false, false},
	{"D-", false, false, false}, {"--D", false, false, false}, {"D Z", false, false, false}, {"Dx", false, false, false}, {"D,Z", false, false, false}, {"D.Z.", false, false, false},
	{"+D", false, false, true}, {"0D", false, false, true}, {"0xD", false, false, true}, {"D_Z", false, false, true}, {"+D.Z", false, false, true},
}

// h10Inst instantiates a template: the text, and the denoted mantissa at fd fraction digits.
func h10Inst(t h10Tmpl, fd int) (string, mInt) {
	var b []byte
	mant := mU(0)
	neg := false
	frac := -1
	for i := 0; i < len(t.t); i++ {
		c := t.t[i]
		switch c {
		case 'D', 'Z':
			d := symByte()
			if c == 'D' {
				assume(d >= '1')
			} else {
				assume(d >= '0')
			}
			assume(d <= '9')
			b = append(b, d)
			mant = mAdd(mMulPow10(mant, 1), mU(uint64(d-'0')))
			if frac >= 0 {
				frac++
			}
		case '0':
			b = append(b, c)
			mant = mMulPow10(mant, 1)
			if frac >= 0 {
				frac++
			}
		case '-':
			neg = true
			b = append(b, c)
		case '.':
			frac = 0
			b = append(b, c)
		default:
			b = append(b, c)
		}
	}
	if frac < 0 {
		frac = 0
	}
	if fd >= frac {
		mant = mMulPow10(mant, fd-frac)
	}
	if neg {
		mant = mNeg(mant)
	}
	return string(b), mant
}

func H10syn() {
	decimal := param("decimal") == 1
	fd := 0
	var y YangRange
	lo, hi := mI(-100), mI(100)
	if decimal {
		fd = 2
		y = YangRange{{Number{Value: 10000, Negative: true, FractionDigits: 2}, Number{Value: 10000, FractionDigits: 2}}}
		lo, hi = mI(-10000), mI(10000)
	} else {
		y = YangRange{{Number{Value: 100, Negative: true}, Number{Value: 100}}}
	}
	t1 := h10Tmpls[symChoice(len(h10Tmpls))]
	s1, v1 := h10Inst(t1, fd)
	pair := symBool()
	s, v2, t2 := s1, v1, t1
	if pair {
		t2 = h10Tmpls[symChoice(len(h10Tmpls))]
		var s2 string
		s2, v2 = h10Inst(t2, fd)
		s = s1 + ".." + s2
	}
	note(s)
	ok := func(t h10Tmpl) bool {
		if decimal {
			return t.decOK
		}
		return t.intOK
	}
	wellFormed := ok(t1) && ok(t2)
	lenient := (t1.lenient || ok(t1)) && (t2.lenient || ok(t2)) && !wellFormed
	// fraction digits beyond the precision make a decimal bound not fit
	r, err := y.parseChildRanges(s, decimal, uint8(fd))
	if !wellFormed {
		reach("malformed")
		// a syntactically invalid restriction is rejected; the leniently spelled ones are a known finding
		checkKF(err != nil, "a restriction that is syntactically invalid is rejected with an error", lenient, "lenient-number-spelling")
		return
	}
	inOrder := mLe(v1, v2)
	inside := symAnd(mLe(lo, v1), mLe(v2, hi))
	if err != nil {
		reach("rejected")
		check(symNot(symAnd(inOrder, inside)), "a well-formed restriction with ordered bounds inside the parent set is accepted")
		return
	}
	reach("accepted")
	check(inOrder, "a part whose bounds are out of order is rejected")
	check(inside, "a restriction that admits a value its parent does not is rejected")
	check(len(r) == 1, "one part")
	if len(r) == 1 {
		check(mEq(h10Val(r[0].Min), v1), "the lower bound is the number written")
		check(mEq(h10Val(r[0].Max), v2), "the upper bound is the number written")
	}
}

// ---- H10u: the use site (types.go Type.resolve): restrictions written in a module, through
// Parse + Process, with the real number parsers. The built-in parent sets are written here from
// RFC 7950 9.2 / 9.3 / 9.4, independently of the library's tables.

type h10Base struct {
	name   string
	lo, hi mInt
	length bool // the restriction is a length (string, binary), else a range
}

func h10Bases() []h10Base {
	two63 := mU(1 << 63)
	return []h10Base{
		{"int8", mI(-128), mI(127), false},
		{"int16", mI(-32768), mI(32767), false},
		{"int32", mI(-2147483648), mI(2147483647), false},
		{"int64", mNeg(two63), mSub(two63, mI(1)), false},
		{"uint8", mI(0), mI(255), false},
		{"uint16", mI(0), mI(65535), false},
		{"uint32", mI(0), mI(4294967295), false},
		{"uint64", mI(0), mU(1<<64 - 1), false},
		{"string", mI(0), mU(1<<64 - 1), true},
		{"binary", mI(0), mU(1<<64 - 1), true},
	}
}

// h10Lit spells an arbitrary 64-bit magnitude with optional sign in decimal and returns the
// text and the denoted integer.
var h10LitNeg bool // some literal drawn by h10Lit since it was last reset carries a minus sign

func h10Lit() (string, mInt) {
	neg := symBool()
	h10LitNeg = h10LitNeg || neg
	v := symU64()
	lit := strconv.FormatUint(v, 10)
	val := mU(v)
	if neg {
		lit = "-" + lit
		val = mNeg(val)
	}
	return lit, val
}

func h10RangeOf(e *Entry, length bool) YangRange {
	if e == nil || e.Type == nil {
		return nil
	}
	if length {
		return e.Type.Length
	}
	return e.Type.Range
}

// h10CheckOne: r is exactly the one interval [lo,hi] at fraction-digits fd.
func h10CheckOne(r YangRange, lo, hi mInt, fd int, what string) {
	check(len(r) == 1, what+": one part")
	if len(r) != 1 {
		return
	}
	check(mEq(h10Val(r[0].Min), lo), what+": lower bound")
	check(mEq(h10Val(r[0].Max), hi), what+": upper bound")
	check(int(r[0].Min.FractionDigits) == fd && int(r[0].Max.FractionDigits) == fd, what+": fraction-digits of the bounds")
}

// mode 0: one restriction on a built-in type, one bound an arbitrary 64-bit literal, the other
// min/max (or the single value); mode 3: both bounds arbitrary literals.
func h10uBase(both bool) {
	bs := h10Bases()
	if both {
		// two arbitrary literals: the extreme types only (the others differ in their constants)
		bs = []h10Base{bs[0], bs[3], bs[7], bs[8]}
	}
	b := bs[symChoice(len(bs))]
	var text string
	var lo, hi mInt
	h10LitNeg = false
	if both {
		t1, v1 := h10Lit()
		t2, v2 := h10Lit()
		text, lo, hi = t1+".."+t2, v1, v2
	} else {
		t, v := h10Lit()
		switch symChoice(3) {
		case 0:
			text, lo, hi = t+"..max", v, b.hi
		case 1:
			text, lo, hi = "min.."+t, b.lo, v
		default:
			text, lo, hi = t, v, v
		}
	}
	kw := "range"
	if b.length {
		kw = "length"
	}
	src := `module m { namespace "urn:m"; prefix m; leaf l { type ` + b.name + ` { ` + kw + ` "` + text + `"; } } leaf p { type ` + b.name + `; } }`
	note(src)
	ms, lerrs := hLoad(src)
	check(len(lerrs) == 0, "the module parses")
	errs := ms.Process()
	ok := symAnd(mLe(b.lo, lo), symAnd(mLe(lo, hi), mLe(hi, b.hi)))
	if b.length {
		// a length bound is a non-negative-integer-value; the library reads "-0" as 0 in some
		// positions and rejects it in others - a spelling question (cf. the lenient-number-spelling
		// finding), no claim either way; negative values proper are outside the set anyway
		assume(symNot(symAnd(h10LitNeg, symOr(mEq(lo, mI(0)), mEq(hi, mI(0))))))
	}
	if len(errs) > 0 {
		reach("rejected")
		check(symNot(ok), "a restriction with ordered bounds inside the built-in type's set is accepted")
		return
	}
	reach("accepted")
	check(ok, "a restriction with bounds out of order or outside the built-in type's set is rejected")
	top := ToEntry(ms.Modules["m"])
	h10CheckOne(h10RangeOf(top.Dir["l"], b.length), lo, hi, 0, "restricted leaf")
	if !b.length {
		h10CheckOne(h10RangeOf(top.Dir["p"], false), b.lo, b.hi, 0, "unrestricted leaf has the built-in set")
	} else {
		check(len(h10RangeOf(top.Dir["p"], true)) == 0, "unrestricted string has no length restriction")
	}
}

type h10Lvl struct {
	present bool
	text    string
	lo, hi  mInt
}

// h10Digit: a bound of one symbolic digit, optionally negative.
func h10Digit(signed bool) (string, mInt) {
	d := symByte()
	assume(d >= '0')
	assume(d <= '9')
	v := mU(uint64(d - '0'))
	s := string([]byte{d})
	if signed && symBool() {
		return "-" + s, mNeg(v)
	}
	return s, v
}

// mode 1: a derivation chain BASE <- t1 <- t2 <- leaf, every level with or without a restriction
// "A..B" of one-digit bounds: each level's set is its own restriction, which must lie inside the
// set inherited from the level below; leaves of t1, t2 see those levels' sets unchanged.
func h10uChain() {
	bs := h10Bases()
	pick := []int{0, 3, 5, 7, 8}
	b := bs[pick[symChoice(len(pick))]]
	signed := b.name == "int8" || b.name == "int64"
	kw := "range"
	if b.length {
		kw = "length"
	}
	var lv [3]h10Lvl
	for i := range lv {
		if i == 1 && param("lv") < 3 {
			continue // the middle typedef passes its base through unrestricted
		}
		lv[i].present = symBool()
		if lv[i].present {
			t1, v1 := h10Digit(signed)
			t2, v2 := h10Digit(false)
			lv[i].text, lv[i].lo, lv[i].hi = t1+".."+t2, v1, v2
		}
	}
	ty := func(base string, l h10Lvl) string {
		if !l.present {
			return "type " + base + ";"
		}
		return "type " + base + ` { ` + kw + ` "` + l.text + `"; }`
	}
	src := `module m { namespace "urn:m"; prefix m; typedef t1 { ` + ty(b.name, lv[0]) + ` } typedef t2 { ` + ty("t1", lv[1]) + ` } ` +
		`leaf l { ` + ty("t2", lv[2]) + ` } leaf l1 { type t1; } leaf l2 { type t2; } }`
	note(src)
	ms, lerrs := hLoad(src)
	check(len(lerrs) == 0, "the module parses")
	errs := ms.Process()
	// reference: effective set per level
	ok := true
	curLo, curHi := b.lo, b.hi
	restricted := false
	var effLo, effHi [3]mInt
	var effR [3]bool
	for i, l := range lv {
		if l.present {
			ok = symAnd(ok, symAnd(mLe(curLo, l.lo), symAnd(mLe(l.lo, l.hi), mLe(l.hi, curHi))))
			curLo, curHi = l.lo, l.hi
			restricted = true
		}
		effLo[i], effHi[i], effR[i] = curLo, curHi, restricted
	}
	if len(errs) > 0 {
		reach("rejected")
		check(symNot(ok), "a chain in which every restriction lies inside the set it inherits is accepted")
		return
	}
	reach("accepted")
	check(ok, "a restriction admitting a value the inherited set does not (or with bounds out of order) is rejected at its step of the chain")
	top := ToEntry(ms.Modules["m"])
	for i, n := range []string{"l1", "l2", "l"} {
		r := h10RangeOf(top.Dir[n], b.length)
		if b.length && !effR[i] {
			check(len(r) == 0, "no length restriction anywhere below: none reported")
			continue
		}
		h10CheckOne(r, effLo[i], effHi[i], 0, "level "+n)
	}
}

// mode 2: decimal64 at every fraction-digits F: the built-in set is the signed 64-bit mantissa
// range at F; a restriction "A.a..max" / "min..A.a" / "A.a..B.b" denotes mantissas scaled to F;
// a typedef carrying the fraction-digits hands precision and set on to a restricted use.
func h10uDec() {
	f := symRange(1, 18)
	two63 := mU(1 << 63)
	blo, bhi := mNeg(two63), mSub(two63, mI(1))
	viaTypedef := symBool()
	num := func() (string, mInt) {
		d1, d2 := symByte(), symByte()
		assume(d1 >= '0')
		assume(d1 <= '9')
		assume(d2 >= '0')
		assume(d2 <= '9')
		v := mMulPow10(mAdd(mMulPow10(mU(uint64(d1-'0')), 1), mU(uint64(d2-'0'))), f-1)
		s := string([]byte{d1, '.', d2})
		if symBool() {
			return "-" + s, mNeg(v)
		}
		return s, v
	}
	var text string
	var lo, hi mInt
	switch symChoice(3) {
	case 0:
		t, v := num()
		text, lo, hi = t+"..max", v, bhi
	case 1:
		t, v := num()
		text, lo, hi = "min.."+t, blo, v
	default:
		t1, v1 := num()
		t2, v2 := num()
		text, lo, hi = t1+".."+t2, v1, v2
	}
	fds := hItoa(int64(f))
	var src string
	if viaTypedef {
		src = `module m { namespace "urn:m"; prefix m; typedef d { type decimal64 { fraction-digits ` + fds + `; } } leaf l { type d { range "` + text + `"; } } leaf p { type d; } }`
	} else {
		src = `module m { namespace "urn:m"; prefix m; leaf l { type decimal64 { fraction-digits ` + fds + `; range "` + text + `"; } } leaf p { type decimal64 { fraction-digits ` + fds + `; } } }`
	}
	note(src)
	ms, lerrs := hLoad(src)
	check(len(lerrs) == 0, "the module parses")
	errs := ms.Process()
	// 9.9 * 10^(F-1) fits in 63 bits only below F = 18: at F = 18 the bound 9.9 is 9.9e18 > 2^63-1
	ok := symAnd(mLe(blo, lo), symAnd(mLe(lo, hi), mLe(hi, bhi)))
	if len(errs) > 0 {
		reach("rejected")
		check(symNot(ok), "a decimal64 restriction with ordered bounds inside the mantissa range is accepted")
		return
	}
	reach("accepted")
	check(ok, "a decimal64 restriction outside the mantissa range at this precision, or out of order, is rejected")
	top := ToEntry(ms.Modules["m"])
	check(top.Dir["l"].Type.FractionDigits == f && top.Dir["p"].Type.FractionDigits == f, "the type carries the written fraction-digits")
	h10CheckOne(h10RangeOf(top.Dir["l"], false), lo, hi, f, "restricted decimal64")
	h10CheckOne(h10RangeOf(top.Dir["p"], false), blo, bhi, f, "unrestricted decimal64 has the full mantissa range")
}

func H10u() {
	switch param("mode") {
	case 0:
		h10uBase(false)
	case 1:
		h10uChain()
	case 2:
		h10uDec()
	case 3:
		h10uBase(true)
	}
}
