package yang

import "strconv"

// C10 - range and length restrictions denote the written set and only ever narrow.
// Units: types_builtin.go parseChildRanges, coalesce, YangRange.{Sort,Less,Contains,Validate},
// Number.{Less,addQuantum}. The number tokens of the restriction string are placeholders:
// ParseInt/ParseDecimal are redirected (engine side only) to h10Stub*, which return fresh
// symbolic Numbers - "returns exactly the number the token denotes" is what C15 establishes
// for the real parsers. Natively the placeholders are replaced by the printed model values and
// the real parsers run. Oracle: integer interval semantics over mInt (mantissas at one fd).

var h10Nums []Number

func h10NewNumber(fd uint8) Number {
	n := Number{Value: symU64(), Negative: symBool(), FractionDigits: fd}
	if fd > 0 {
		// what ParseDecimal can return: a signed 64-bit mantissa
		assume(symOr(n.Value <= 1<<63-1, symAnd(n.Negative, n.Value == 1<<63)))
	}
	return n
}

// h10Format prints a number independently of Number.String (native replay only).
func h10Format(n Number) string {
	s := strconv.FormatUint(n.Value, 10)
	if fd := int(n.FractionDigits); fd > 0 {
		for len(s) <= fd {
			s = "0" + s
		}
		s = s[:len(s)-fd] + "." + s[len(s)-fd:]
	}
	if n.Negative {
		s = "-" + s
	}
	return s
}

// h10Tok registers a child endpoint and returns its token.
func h10Tok(fd uint8) string {
	n := h10NewNumber(fd)
	h10Nums = append(h10Nums, n)
	if inEngine() {
		return "#" + string([]byte{'0' + byte(len(h10Nums)-1)})
	}
	return h10Format(n)
}

func h10StubInt(s string) (Number, error) { return h10Nums[int(s[1]-'0')], nil }
func h10StubDec(s string, fd uint8) (Number, error) {
	n := h10Nums[int(s[1]-'0')]
	return n, nil
}

func h10Val(n Number) mInt { return mIte(n.Negative, mNeg(mU(n.Value)), mU(n.Value)) }

type h10Iv struct{ lo, hi mInt }

func h10In(x mInt, v h10Iv) bool { return symAnd(mLe(v.lo, x), mLe(x, v.hi)) }
func h10InAny(x mInt, vs []h10Iv) bool {
	r := false
	for _, v := range vs {
		r = symOr(r, h10In(x, v))
	}
	return r
}

// h10Parent returns an arbitrary parent set of p parts satisfying the representation
// invariant: every part valid, parts strictly ascending, disjoint and not adjacent.
func h10Parent(p int, fd uint8) (YangRange, []h10Iv) {
	var y YangRange
	var ivs []h10Iv
	for i := 0; i < p; i++ {
		lo, hi := h10NewNumber(fd), h10NewNumber(fd)
		iv := h10Iv{h10Val(lo), h10Val(hi)}
		assume(mLe(iv.lo, iv.hi))
		if i > 0 {
			assume(mLess(mAdd(ivs[i-1].hi, mI(1)), iv.lo))
		}
		y = append(y, YRange{lo, hi})
		ivs = append(ivs, iv)
	}
	return y, ivs
}

// H10a: parseChildRanges on every skeleton of k parts against an arbitrary valid parent of
// p parts. fd = 0: integers/lengths (decimal=false); fd in 1..18: decimal64.
// mm: 0 = no min/max keywords, 1 = min/max in every endpoint position.
func H10a() {
	k, p, mm := param("k"), param("p"), param("mm")
	fd := uint8(symRange(param("fdlo"), param("fdhi")))
	h10Nums = nil
	y, yiv := h10Parent(p, fd)
	minV, maxV := yiv[0].lo, yiv[p-1].hi
	var w []h10Iv // written parts
	s := ""
	endpoint := func() (string, mInt) {
		c := 0
		if mm == 1 {
			c = symChoice(3)
		}
		switch c {
		case 1:
			return "min", minV
		case 2:
			return "max", maxV
		}
		t := h10Tok(fd)
		return t, h10Val(h10Nums[len(h10Nums)-1])
	}
	for i := 0; i < k; i++ {
		if i > 0 {
			s += "|"
		}
		t1, v1 := endpoint()
		if symBool() {
			t2, v2 := endpoint()
			s += t1 + ".." + t2
			w = append(w, h10Iv{v1, v2})
		} else {
			s += " " + t1 + " "
			w = append(w, h10Iv{v1, v1})
		}
	}
	note(s)
	h10Judge(y, yiv, s, w, fd)
}

// h10Judge runs parseChildRanges for the written parts w (text s) under parent y and checks the
// outcome against the interval oracle.
func h10Judge(y YangRange, yiv []h10Iv, s string, w []h10Iv, fd uint8) {
	r, err := y.parseChildRanges(s, fd != 0, fd)

	// quantifier-free reading of the written set
	allValid := true
	for _, v := range w {
		allValid = symAnd(allValid, mLe(v.lo, v.hi))
	}
	ascDisjoint := true
	for i := 1; i < len(w); i++ {
		ascDisjoint = symAnd(ascDisjoint, mLess(w[i-1].hi, w[i].lo))
	}
	// a contiguous integer interval lies in a union of non-adjacent parts iff it lies in one of them
	subset := true
	for _, v := range w {
		in1 := false
		for _, q := range yiv {
			in1 = symOr(in1, symAnd(mLe(q.lo, v.lo), mLe(v.hi, q.hi)))
		}
		subset = symAnd(subset, in1)
	}
	if err != nil {
		reach("rejected")
		check(symNot(symAnd(allValid, symAnd(ascDisjoint, subset))),
			"a restriction with valid, ascending, disjoint parts inside the parent set is accepted")
		return
	}
	reach("accepted")
	check(allValid, "a part whose bounds are out of order is rejected")
	check(subset, "a restriction admitting a value its parent does not is rejected")
	var riv []h10Iv
	for _, q := range r {
		check(int(q.Min.FractionDigits) == int(fd) && int(q.Max.FractionDigits) == int(fd), "result keeps the fraction-digits")
		riv = append(riv, h10Iv{h10Val(q.Min), h10Val(q.Max)})
	}
	check(len(riv) >= 1, "result is not empty")
	for i, v := range riv {
		check(mLe(v.lo, v.hi), "result parts are valid")
		if i > 0 {
			check(mLess(mAdd(riv[i-1].hi, mI(1)), v.lo), "result is sorted, disjoint and coalesced")
		}
	}
	// one universally quantified member x
	x := h10Val(Number{Value: symU64(), Negative: symBool()})
	check(h10InAny(x, w) == h10InAny(x, riv), "value set of the result == the written set (for every x)")
	check(symOr(symNot(h10InAny(x, riv)), h10InAny(x, yiv)), "result is a subset of the parent set (for every x)")
}


// H10b: the same restriction text under two different parents in succession: the second
// outcome must be what the second parent demands, whatever the first call was (a restriction
// is judged against its own parent at every step of every chain; nothing may be remembered).
func H10b() {
	fd := uint8(symRange(param("fdlo"), param("fdhi")))
	h10Nums = nil
	y1, yiv1 := h10Parent(2, fd)
	y2, yiv2 := h10Parent(2, fd)
	// the two parents agree in their lowest and highest value but not necessarily in between
	if symBool() {
		assume(symAnd(mEq(yiv1[0].lo, yiv2[0].lo), mEq(yiv1[1].hi, yiv2[1].hi)))
	}
	t1, t2 := h10Tok(fd), h10Tok(fd)
	s := t1 + ".." + t2
	w := []h10Iv{{h10Val(h10Nums[0]), h10Val(h10Nums[1])}}
	_, _ = yiv1, y1
	y1.parseChildRanges(s, fd != 0, fd)
	note(s)
	h10Judge(y2, yiv2, s, w, fd)
}

// ---- H10syn: the real number parsers on well-formed, malformed and leniently spelled tokens.

type h10Tmpl struct {
	t       string // D: a symbolic digit 1..9, Z: a symbolic digit 0..9, other characters literal
	intOK   bool   // well-formed as an integer bound (RFC 7950 integer-value)
	decOK   bool   // well-formed as a decimal64 bound (integer-value or decimal-value)
	lenient bool   // not RFC syntax, but a spelling the library documents as accepted (sign +, base prefixes, leading zero, underscores)
}

var h10Tmpls = []h10Tmpl{
	{"D", true, true, false}, {"DZ", true, true, false}, {"-D", true, true, false}, {"0", true, true, false}, {"-DZ", true, true, false},
	{"D.Z", false, true, false}, {"-D.ZZ", false, true, false}, {"0.Z", false, true, false}, {"DZ.Z", false, true, false},
	{"", false, false, false}, {"-", false, false, false}, {"D.", false, false, false}, {".Z", false, false, false}, {"D.Z.Z", false, false, false},
	{"D-", false, false, false}, {"--D", false, false, false}, {"D Z", false, false, false}, {"Dx", false, false, false}, {"D,Z", false, false, false}, {"D.Z.", false, false, false},
	{"+D", false, false, true}, {"0D", false, false, true}, {"0xD", false, false, true}, {"D_Z", false, false, true}, {"+D.Z", false, false, true},
}

// h10Inst instantiates a template: the text, and the denoted mantissa at fd fraction digits.
func h10Inst(t h10Tmpl, fd int) (string, mInt) {
	var b []byte
	mant := mU(0)
	neg := false
	frac := -1
	for i := 0; i < len(t.t); i++ {
		c := t.t[i]
		switch c {
		case 'D', 'Z':
			d := symByte()
			if c == 'D' {
				assume(d >= '1')
			} else {
				assume(d >= '0')
			}
			assume(d <= '9')
			b = append(b, d)
			mant = mAdd(mMulPow10(mant, 1), mU(uint64(d-'0')))
			if frac >= 0 {
				frac++
			}
		case '0':
			b = append(b, c)
			mant = mMulPow10(mant, 1)
			if frac >= 0 {
				frac++
			}
		case '-':
			neg = true
			b = append(b, c)
		case '.':
			frac = 0
			b = append(b, c)
		default:
			b = append(b, c)
		}
	}
	if frac < 0 {
		frac = 0
	}
	if fd >= frac {
		mant = mMulPow10(mant, fd-frac)
	}
	if neg {
		mant = mNeg(mant)
	}
	return string(b), mant
}

func H10syn() {
	decimal := param("decimal") == 1
	fd := 0
	var y YangRange
	lo, hi := mI(-100), mI(100)
	if decimal {
		fd = 2
		y = YangRange{{Number{Value: 10000, Negative: true, FractionDigits: 2}, Number{Value: 10000, FractionDigits: 2}}}
		lo, hi = mI(-10000), mI(10000)
	} else {
		y = YangRange{{Number{Value: 100, Negative: true}, Number{Value: 100}}}
	}
	t1 := h10Tmpls[symChoice(len(h10Tmpls))]
	s1, v1 := h10Inst(t1, fd)
	pair := symBool()
	s, v2, t2 := s1, v1, t1
	if pair {
		t2 = h10Tmpls[symChoice(len(h10Tmpls))]
		var s2 string
		s2, v2 = h10Inst(t2, fd)
		s = s1 + ".." + s2
	}
	note(s)
	ok := func(t h10Tmpl) bool {
		if decimal {
			return t.decOK
		}
		return t.intOK
	}
	wellFormed := ok(t1) && ok(t2)
	lenient := (t1.lenient || ok(t1)) && (t2.lenient || ok(t2)) && !wellFormed
	// fraction digits beyond the precision make a decimal bound not fit
	r, err := y.parseChildRanges(s, decimal, uint8(fd))
	if !wellFormed {
		reach("malformed")
		// a syntactically invalid restriction is rejected; the leniently spelled ones are a known finding
		checkKF(err != nil, "a restriction that is syntactically invalid is rejected with an error", lenient, "lenient-number-spelling")
		return
	}
	inOrder := mLe(v1, v2)
	inside := symAnd(mLe(lo, v1), mLe(v2, hi))
	if err != nil {
		reach("rejected")
		check(symNot(symAnd(inOrder, inside)), "a well-formed restriction with ordered bounds inside the parent set is accepted")
		return
	}
	reach("accepted")
	check(inOrder, "a part whose bounds are out of order is rejected")
	check(inside, "a restriction that admits a value its parent does not is rejected")
	check(len(r) == 1, "one part")
	if len(r) == 1 {
		check(mEq(h10Val(r[0].Min), v1), "the lower bound is the number written")
		check(mEq(h10Val(r[0].Max), v2), "the upper bound is the number written")
	}
}
