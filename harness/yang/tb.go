package yang

// Shared library of the pipeline (tier B) harnesses. See DESIGN.md section 4.0.

// hLoad parses the given module texts into a fresh module set (Modules.Parse: lexer, parser,
// AST builder, registration) and returns the set and the load errors.
func hLoad(texts ...string) (*Modules, []error) {
	hNoFiles()
	ms := NewModules()
	var errs []error
	for i, t := range texts {
		if err := ms.Parse(t, "f"+string([]byte{'0' + byte(i)})+".yang"); err != nil {
			errs = append(errs, err)
		}
	}
	return ms, errs
}

// hNoFiles makes the loader's file access (the package's own seams readFile/scanDir) answer
// "no such file": nothing is ever fetched from the real file system by a harness.
func hNoFiles() {
	readFile = func(string) ([]byte, error) { return nil, errNoFile }
	scanDir = func(string, string, bool) string { return "" }
}

var errNoFile = errorString("no such file")

type errorString string

func (e errorString) Error() string { return string(e) }

// HTB: smoke test of the whole pipeline on a concrete module.
func HTB() {
	ms, lerrs := hLoad(`module m { namespace "urn:m"; prefix m; typedef t { type int8 { range "1..5"; } }
	  grouping g { leaf x { type t; } }
	  container c { uses g; leaf l { type string; } list li { key k; leaf k { type string; } } }
	  identity i1; identity i2 { base i1; }
	  rpc r { input { leaf a { type identityref { base i1; } } } }
	  augment /m:c { leaf z { type enumeration { enum a; enum b { value 5; } } } } }`)
	check(len(lerrs) == 0, "parse ok")
	errs := ms.Process()
	check(len(errs) == 0, "process ok")
	e := ToEntry(ms.Modules["m"])
	check(e.Dir["c"].Dir["l"].Type.Kind == Ystring, "leaf type resolved")
	check(e.Dir["c"].Dir["x"].Type.Kind == Yint8, "grouping leaf typedef resolved")
	check(e.Dir["c"].Dir["z"] != nil, "augment applied")
	check(len(ms.Modules["m"].Identity[0].Values) == 1, "identity values")
	reach("done")
}

func hSortedDir(m map[string]*Entry) []string {
	ks := make([]string, 0, len(m))
	for k := range m {
		ks = append(ks, k)
	}
	// insertion sort with plain comparisons (names may carry symbolic bytes)
	for i := 1; i < len(ks); i++ {
		for j := i; j > 0 && ks[j] < ks[j-1]; j-- {
			ks[j], ks[j-1] = ks[j-1], ks[j]
		}
	}
	return ks
}

// hModuleNames returns the names of the loaded modules (not submodules, not name@revision keys).
func hModuleNames(ms *Modules) []string {
	var mods []string
	for k, m := range ms.Modules {
		if k == m.Name {
			mods = append(mods, k)
		}
	}
	for i := 1; i < len(mods); i++ {
		for j := i; j > 0 && mods[j] < mods[j-1]; j-- {
			mods[j], mods[j-1] = mods[j-1], mods[j]
		}
	}
	return mods
}

type hNode struct {
	e    *Entry
	path string // module:/a/b/c
	mod  string
}

// hWF is the C04 walker: on a module set whose processing reported no errors, every tree is
// a proper tree, kind/Dir/ListAttr/Type are mutually consistent, no augment is left unapplied
// and no node carries a recorded error. It returns all nodes in a fixed order.
func hWF(ms *Modules) []hNode {
	var out []hNode
	seen := map[*Entry]bool{}
	var rec func(e *Entry, path, mod string)
	rec = func(e *Entry, path, mod string) {
		check(!seen[e], "C04: no node object is reachable by two paths (shared between two places, uses or modules)")
		if seen[e] {
			return
		}
		seen[e] = true
		out = append(out, hNode{e, path, mod})
		check(len(e.Errors) == 0, "C04: no node of a tree that processed cleanly carries a recorded error")
		check(len(e.Augments) == 0, "C04: no augment is left unapplied")
		leafy := e.Kind == LeafEntry
		if leafy {
			check(e.Type != nil, "C04: leaves and leaf-lists have a resolved type")
			check(e.Dir == nil, "C04: leaves and leaf-lists have no children")
		} else {
			check(e.Dir != nil, "C04: every non-leaf kind has a child map")
		}
		check((e.ListAttr != nil) == (e.IsList() || e.IsLeafList()), "C04: lists and leaf-lists carry list attributes and nothing else does")
		for _, k := range hSortedDir(e.Dir) {
			ch := e.Dir[k]
			check(ch != nil, "C04: child map holds no nil entry")
			if ch == nil {
				continue
			}
			check(ch.Name == k, "C04: each child is filed under its own name")
			check(ch.Parent == e, "C04: each child points back to its parent")
			if e.Kind == ChoiceEntry {
				check(ch.Kind == CaseEntry, "C04: every child of a choice is a case")
			}
			rec(ch, path+"/"+k, mod)
		}
		if e.RPC != nil {
			if io := e.RPC.Input; io != nil {
				check(io.Parent == e, "C04: rpc/action input points back to its parent")
				check(io.Name == "input", "C04: rpc/action input is named input")
				rec(io, path+"/input", mod)
			}
			if io := e.RPC.Output; io != nil {
				check(io.Parent == e, "C04: rpc/action output points back to its parent")
				check(io.Name == "output", "C04: rpc/action output is named output")
				rec(io, path+"/output", mod)
			}
		}
	}
	// every loaded module, older revisions included (each module object once, under its first key)
	seenMod := map[*Module]bool{}
	var keys []string
	for k := range ms.Modules {
		keys = append(keys, k)
	}
	for i := 1; i < len(keys); i++ {
		for j := i; j > 0 && keys[j] < keys[j-1]; j-- {
			keys[j], keys[j-1] = keys[j-1], keys[j]
		}
	}
	for _, k := range keys {
		if seenMod[ms.Modules[k]] {
			continue
		}
		seenMod[ms.Modules[k]] = true
		e := ToEntry(ms.Modules[k])
		check(len(e.Errors) == 0, "C04: no module entry of a cleanly processed set carries a recorded error")
		check(len(e.Augments) == 0, "C04: no augment is left unapplied")
		for _, n := range hSortedDir(e.Dir) {
			check(e.Dir[n].Parent == e, "C04: each child points back to its parent")
			check(e.Dir[n].Name == n, "C04: each child is filed under its own name")
			rec(e.Dir[n], k+":/"+n, k)
		}
	}
	return out
}

func hItoa(v int64) string {
	if v == 0 {
		return "0"
	}
	neg := v < 0
	var b []byte
	u := uint64(v)
	if neg {
		u = uint64(-v)
	}
	for u > 0 {
		b = append([]byte{byte('0' + u%10)}, b...)
		u /= 10
	}
	if neg {
		b = append([]byte{'-'}, b...)
	}
	return string(b)
}

// hIdName renders an identity with the module that declares it (names alone can coincide).
func hIdName(id *Identity) string {
	if r := RootNode(id); r != nil {
		if r.BelongsTo != nil {
			return r.BelongsTo.Name + ":" + id.Name // declared in a submodule: it belongs to the owner module
		}
		return r.Name + ":" + id.Name
	}
	return id.Name
}

func hTypeSummary(t *YangType) string {
	if t == nil {
		return "<nil type>"
	}
	s := "type{" + TypeKindToName[t.Kind] + " name=" + t.Name + " units=" + t.Units + " fd=" + hItoa(int64(t.FractionDigits))
	if t.HasDefault {
		s += " default=" + t.Default
	}
	s += " range=" + t.Range.String() + " length=" + t.Length.String() + " path=" + t.Path
	for _, p := range t.Pattern {
		s += " pattern=" + p
	}
	if t.Enum != nil {
		for _, n := range t.Enum.Names() {
			s += " enum " + n + "=" + hItoa(t.Enum.Value(n))
		}
	}
	if t.Bit != nil {
		for _, n := range t.Bit.Names() {
			s += " bit " + n + "=" + hItoa(t.Bit.Value(n))
		}
	}
	if t.IdentityBase != nil {
		s += " base=" + t.IdentityBase.Name + "["
		for _, v := range t.IdentityBase.Values {
			s += hIdName(v) + ","
		}
		s += "]"
	}
	for _, u := range t.Type {
		s += " member " + hTypeSummary(u)
	}
	return s + "}"
}

// hDumpEntry renders one node (not its children) canonically.
func hDumpEntry(e *Entry) string {
	s := e.Name + " kind=" + e.Kind.String() + " config=" + e.Config.String() + " mandatory=" + e.Mandatory.String()
	for _, d := range e.Default {
		s += " default=" + d
	}
	s += " units=" + e.Units + " key=" + e.Key
	if e.ListAttr != nil {
		s += " min=" + hItoa(int64(e.ListAttr.MinElements)) + " max=" + hItoa(int64(e.ListAttr.MaxElements))
		if e.ListAttr.OrderedBy != nil {
			s += " ordered-by=" + e.ListAttr.OrderedBy.Name
		}
	}
	if e.Type != nil {
		s += " " + hTypeSummary(e.Type)
	}
	if ns := e.Namespace(); ns != nil {
		s += " ns=" + ns.Name
	}
	if im, err := e.InstantiatingModule(); err == nil {
		s += " im=" + im
	} else {
		s += " im-unknown"
	}
	if e.ReadOnly() {
		s += " ro"
	}
	return s
}

// hDumpTree renders a subtree canonically (children by sorted name, rpc input/output included).
func hDumpTree(e *Entry, indent string) string {
	s := indent + hDumpEntry(e) + "\n"
	for _, k := range hSortedDir(e.Dir) {
		s += hDumpTree(e.Dir[k], indent+" ")
	}
	if e.RPC != nil {
		if e.RPC.Input != nil {
			s += hDumpTree(e.RPC.Input, indent+" ")
		}
		if e.RPC.Output != nil {
			s += hDumpTree(e.RPC.Output, indent+" ")
		}
	}
	return s
}

// hDumpTrees renders the entry trees of all modules of a set (types with their identity
// value lists included).
func hDumpTrees(ms *Modules) string {
	s := ""
	for _, k := range hModuleNames(ms) {
		s += "module " + k + "\n"
		e := ToEntry(ms.Modules[k])
		for _, n := range hSortedDir(e.Dir) {
			s += hDumpTree(e.Dir[n], " ")
		}
	}
	return s
}

// hDump renders all module trees of a set and the identities declared in each module's own text.
func hDump(ms *Modules) string {
	s := ""
	for _, k := range hModuleNames(ms) {
		s += "module " + k + "\n"
		e := ToEntry(ms.Modules[k])
		for _, n := range hSortedDir(e.Dir) {
			s += hDumpTree(e.Dir[n], " ")
		}
		for _, id := range ms.Modules[k].Identity {
			s += " identity " + id.Name + " ["
			for _, v := range id.Values {
				s += hIdName(v) + ","
			}
			s += "]\n"
		}
	}
	return s
}

func hErrs(errs []error) string {
	s := ""
	for _, e := range errs {
		s += e.Error() + "\n"
	}
	return s
}

// hComposite loads the composite schema used to validate the oracles natively (DESIGN App. E).
func hComposite() *Modules {
	ms, lerrs := hLoad(`module b { namespace "urn:b"; prefix b; include bs;
  grouping g { container gc { leaf gl { type string; } list gli { key k; leaf k { type string; } } } }
  container c { config false; leaf l1 { type string; } container d { config true; leaf l2 { type string; } uses g; }
     choice ch { case k1 { leaf k1l { type string; } } leaf short { type string; } }
     action act { input { leaf ai { type string; } } output { leaf ao { type string; } } } }
  list li { key k; leaf k { type string; } uses g; }
  rpc r1 { input { leaf in1 { type string; } } output { leaf out1 { type string; } uses g; } }
  rpc r2 { }
  notification n { leaf nl { type string; } uses g; }
  uses g;
}`, `submodule bs { belongs-to b { prefix b; } container sc { leaf sl { type string; } }
  augment /b:c/b:d { leaf subaug { type string; } } }`, `module a { namespace "urn:a"; prefix a; import b { prefix bb; } import g2 { prefix g2; }
  augment /bb:c/bb:d { container ac { leaf al { type string; } uses g2:h; } }
  augment /bb:c/bb:d/a:ac { leaf chained { type string; } }
  augment /bb:c/bb:ch { case k3 { leaf k3l { type string; } } leaf short2 { type string; } }
  augment /bb:r1/bb:input { leaf augin { type string; } }
  augment /bb:r2/bb:output { leaf augout { type string; } }
  augment /bb:n { leaf augn { type string; } }
  augment /bb:li { leaf augli { config false; type string; } }
  container own { uses g2:h; }
}`, `module g2 { namespace "urn:g2"; prefix g2; grouping h { container hc { leaf hl { type string; } } } }`)
	check(len(lerrs) == 0, "composite parses")
	return ms
}

// HTB2: the walker and the dump on the composite schema.
func HTB2() {
	ms := hComposite()
	var lerrs []error
	check(len(lerrs) == 0, "parse ok")
	errs := ms.Process()
	check(len(errs) == 0, "process ok")
	nodes := hWF(ms)
	check(len(nodes) > 50, "walker saw the tree")
	d := hDump(ms)
	check(len(d) > 1000, "dump rendered")
	reach("done")
}

// hErrorSortStub stands in for errorSort (engine side, by redirect) in harnesses that only ask
// whether processing reported an error: sorting and de-duplicating messages that carry
// symbolic name bytes would fork on their byte order. C05 runs the real errorSort.
func hErrorSortStub(errors []error) []error {
	if len(errors) == 0 {
		return nil
	}
	return errors
}

// HTB3: HTB2 ten times (interpreter profiling aid).
func HTB3() {
	for i := 0; i < 10; i++ {
		HTB2()
	}
}
