package yang

// C17 - schema path lookup finds exactly the node the path names.
// Unit: entry.go (*Entry).Find (with FindModuleByPrefix, getPrefix). Trees: the composition
// universe (comp.go) and the composite schema of tb.go, processed by the whole pipeline.
// Oracle: pointer identity with the node reached by walking Dir / RPC input/output.

// h17Prefix returns the prefix under which the module that defines start's statement knows
// the module whose tree is named tree; ok=false when that module does not import it (such
// starts are outside the claim: "any module that imports the needed prefixes").
func h17Prefix(start *Entry, tree string) (string, bool) {
	if start == nil || start.Node == nil {
		return "", false
	}
	root := RootNode(start.Node)
	if root == nil {
		return "", false
	}
	if root.BelongsTo != nil {
		if root.BelongsTo.Name == tree {
			return root.BelongsTo.Prefix.Name, true
		}
	} else if root.Name == tree {
		return root.Prefix.Name, true
	}
	for _, imp := range root.Import {
		if imp.Name == tree && imp.Prefix != nil {
			return imp.Prefix.Name, true
		}
	}
	return "", false
}

func h17Split(path string) []string {
	// "mod:/a/b/c" -> [a b c]
	i := 0
	for i < len(path) && path[i] != '/' {
		i++
	}
	var out []string
	cur := ""
	for j := i + 1; j <= len(path); j++ {
		if j == len(path) || path[j] == '/' {
			out = append(out, cur)
			cur = ""
		} else {
			cur += string([]byte{path[j]})
		}
	}
	return out
}

// h17All checks, for one start node, the absolute and relative lookups of every node, and the
// lookups with one non-existent step.
func h17All(nodes []hNode, start hNode, bad string) {
	ss := h17Split(start.path)
	for _, t := range nodes {
		ts := h17Split(t.path)
		if pfx, ok := h17Prefix(start.e, t.mod); ok {
			abs := ""
			for _, s := range ts {
				abs += "/" + pfx + ":" + s
			}
			check(start.e.Find(abs) == t.e, "the absolute prefixed path of a node finds that very node")
			// one non-existent step, at every position: a name no node has, and the two
			// near misses of the real step (a symbolic letter before it / after it)
			for k := range ts {
				for variant := 0; variant < 4; variant++ {
					p := ""
					for j, s := range ts {
						if j == k {
							switch variant {
							case 3:
								// the non-existent step is undone by a following ..: still nothing
								p += "/" + pfx + ":" + bad + "/.."
							case 0:
								s = bad
							case 1:
								s = bad[2:] + s
							case 2:
								s = s + bad[2:]
							}
						}
						p += "/" + pfx + ":" + s
					}
					// the near miss may happen to be the name of a real child there: then the path is
					// not one with a non-existent step
					if variant == 1 || variant == 2 {
						miss := bad[2:] + ts[k]
						if variant == 2 {
							miss = ts[k] + bad[2:]
						}
						pk := t.e
						for up := len(ts) - 1; up >= k; up-- {
							pk = pk.Parent
						}
						coincide := false
						if pk != nil {
							for name := range pk.Dir {
								coincide = symOr(coincide, name == miss)
							}
							if pk.RPC != nil {
								coincide = symOr(coincide, symOr(miss == "input", miss == "output"))
							}
						}
						if coincide {
							continue
						}
					}
					got := start.e.Find(p)
					check(got == nil, "a path with a step that names no child returns nothing")
				}
			}
		}
		if t.mod == start.mod {
			c := 0
			for c < len(ss) && c < len(ts) && ss[c] == ts[c] {
				c++
			}
			rel := ""
			for k := c; k < len(ss); k++ {
				rel += "../"
			}
			for k := c; k < len(ts); k++ {
				rel += ts[k] + "/"
			}
			if rel == "" {
				rel = "./"
			}
			rel = rel[:len(rel)-1]
			check(start.e.Find(rel) == t.e, "a relative path with .. steps between two nodes finds the destination")
		}
	}
}

func h17Bad() string {
	b := symByte()
	assume(b >= 'a')
	assume(b <= 'z')
	return "zz" + string([]byte{b})
}

// H17: composition universe, every start node x every target node.
func H17() {
	hcSlim = param("slim") == 1
	hcNoCfg = true
	sc := hcGenerate(param("n"))
	note(sc.texts[0] + sc.texts[1] + sc.texts[2] + sc.texts[3] + sc.texts[4])
	ms, lerrs := hLoad(sc.texts...)
	check(len(lerrs) == 0, "the generated modules parse")
	if len(lerrs) > 0 {
		return
	}
	errs := ms.Process()
	check(len(errs) == 0, "the generated modules process without error")
	if len(errs) > 0 {
		return
	}
	nodes := hWF(ms)
	reach("processed")
	bad := h17Bad()
	for _, s := range nodes {
		h17All(nodes, s, bad)
	}
}

// H17comp: the composite schema (grafted nodes, implicit cases, action, rpc input/output not
// written in the source), one symbolically chosen start node x every target.
func H17comp() {
	ms := hComposite()
	errs := ms.Process()
	check(len(errs) == 0, "composite processes")
	// force the implicit input/output of the rpc that writes neither into existence, as a
	// lookup of them does, so that they are nodes of the tree
	r2 := ToEntry(ms.Modules["b"]).Dir["r2"]
	check(r2.Find("input") != nil && r2.Find("output") != nil, "implicit rpc input/output can be looked up")
	nodes := hWF(ms)
	reach("processed")
	bad := h17Bad()
	h17All(nodes, nodes[symChoice(len(nodes))], bad)
}

// H17rev: the first step of an absolute path switches to the tree of the module that the start
// node's module imports under that prefix - with two revisions of that module loaded, the one
// the import names (its revision-date, else the latest). Load order and the pinned revision are
// symbolic; every leaf of either revision is looked up from the importer.
func H17rev() {
	r19 := `module lib { namespace "urn:lib"; prefix lib; revision 2019-01-01; container c { leaf both { type string; } leaf old { type string; } } }`
	r20 := `module lib { namespace "urn:lib"; prefix lib; revision 2020-06-15; container c { leaf both { type string; } leaf new { type string; } container sub { leaf deep { type string; } } } }`
	pin := symChoice(3)
	imp := `import lib { prefix l; }`
	switch pin {
	case 1:
		imp = `import lib { prefix l; revision-date 2019-01-01; }`
	case 2:
		imp = `import lib { prefix l; revision-date 2020-06-15; }`
	}
	u := `module u { namespace "urn:u"; prefix u; ` + imp + ` container uc { leaf ul { type string; } } }`
	texts := []string{r19, r20, u}
	orders := [][]int{{0, 1, 2}, {1, 0, 2}, {2, 0, 1}, {2, 1, 0}, {0, 2, 1}, {1, 2, 0}}
	o := orders[symChoice(len(orders))]
	hNoFiles()
	ms := NewModules()
	for _, k := range o {
		check(ms.Parse(texts[k], "f"+string([]byte{'0' + byte(k)})+".yang") == nil, "the modules load")
	}
	errs := ms.Process()
	check(len(errs) == 0, "the modules process")
	if len(errs) > 0 {
		return
	}
	reach("processed")
	want := ms.Modules["lib@2020-06-15"]
	if pin == 1 {
		want = ms.Modules["lib@2019-01-01"]
	}
	check(want != nil, "both revisions are loaded")
	if want == nil {
		return
	}
	tree := ToEntry(want)
	start := ToEntry(ms.Modules["u"]).Dir["uc"].Dir["ul"]
	names := []string{"both", "old", "new", "sub"}
	n := names[symChoice(len(names))]
	got := start.Find("/l:c/l:" + n)
	check(got == tree.Dir["c"].Dir[n], "an absolute path from an importer finds the node (or nothing) in the tree of the revision its import names")
	check(start.Find("/l:c") == tree.Dir["c"], "an absolute path from an importer lands in the tree of the revision its import names")
	if pin != 1 {
		check(start.Find("/l:c/l:sub/l:deep") == tree.Dir["c"].Dir["sub"].Dir["deep"], "deeper node of the named revision")
	} else {
		check(start.Find("/l:c/l:sub/l:deep") == nil, "a node only the other revision has is not found")
	}
}

// H17sub: the prefixes of an absolute path are read with the imports of the file that defines
// the start node: a module and its submodule bind one prefix to two different modules (which of
// them is symbolic), and the submodule knows its module by the belongs-to prefix only.
func H17sub() {
	mx, my := "x", "y"
	if symBool() {
		mx, my = "y", "x"
	}
	m := `module m { namespace "urn:m"; prefix m; import ` + mx + ` { prefix p; } include s; container mc { leaf ml { type string; } } }`
	s := `submodule s { belongs-to m { prefix mm; } import ` + my + ` { prefix p; } container sc { leaf sl { type string; } } }`
	x := `module x { namespace "urn:x"; prefix x; container data { leaf v { type string; } } }`
	y := `module y { namespace "urn:y"; prefix y; container data { leaf v { type int8; } leaf only-y { type string; } } }`
	ms, lerrs := hLoad(m, s, x, y)
	check(len(lerrs) == 0, "the modules parse")
	errs := ms.Process()
	check(len(errs) == 0, "the modules process")
	if len(errs) > 0 {
		return
	}
	reach("processed")
	em := ToEntry(ms.Modules["m"])
	ml, sl := em.Dir["mc"].Dir["ml"], em.Dir["sc"].Dir["sl"]
	tx := func(mod string) *Entry { return ToEntry(ms.Modules[mod]).Dir["data"] }
	check(ml.Find("/p:data/p:v") == tx(mx).Dir["v"], "from a node written in the module, a prefix denotes the module's own import")
	check(sl.Find("/p:data/p:v") == tx(my).Dir["v"], "from a node written in the submodule, a prefix denotes the submodule's own import")
	check(sl.Find("/p:data") == tx(my) && ml.Find("/p:data") == tx(mx), "the first step lands in the tree of the module the start node's file imports under that prefix")
	check(sl.Find("/mm:mc/mm:ml") == ml, "the submodule reaches its module's tree by the belongs-to prefix")
	check(ml.Find("/m:sc/m:sl") == sl, "the module reaches the included nodes by its own prefix")
	check(sl.Find("/mm:sc/mm:sl") == sl && sl.Find("../../mc/ml") == ml, "absolute and relative paths between the two files' nodes")
}
