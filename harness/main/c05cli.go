package main

import (
	"bytes"

	"github.com/openconfig/goyang/pkg/yang"
)

// C05 (command-line renderings): the `tree` and `types` formatters rendered twice from the same
// processed entries must give the same text, whatever order the runtime iterates their maps in
// (engine: a symbolic choice at a range over a matching map; native replay repeats the rendering).

func h05cliEntries() []*yang.Entry {
	ms := yang.NewModules()
	ms.Parse(`module m { namespace "urn:m"; prefix m;
  typedef t1 { type int8 { range "1..5"; } }
  typedef t2 { type string { length "1..9"; pattern "a*"; } }
  container c { leaf a { type t1; } leaf b { type t2; } leaf-list ll { type enumeration { enum x; enum y { value 7; } } }
    choice ch { leaf s1 { type boolean; } case k { leaf s2 { type union { type t1; type string; } } } } }
  list li { key k; leaf k { type string; } leaf v { type decimal64 { fraction-digits 2; } } }
  rpc r { input { leaf i { type t2; } } output { leaf o { type uint16; } } }
}`, "m.yang")
	// a second module with typedefs that render like the first module's (the verbose form differs
	// in the source position only)
	ms.Parse(`module m2 { namespace "urn:m2"; prefix m2;
  typedef t1 { type int8 { range "1..5"; } }
  typedef t2 { type string { length "1..9"; pattern "a*"; } }
  leaf a2 { type t1; } leaf b2 { type t2; } }`, "m2.yang")
	if errs := ms.Process(); len(errs) > 0 {
		return nil
	}
	return []*yang.Entry{yang.ToEntry(ms.Modules["m"]), yang.ToEntry(ms.Modules["m2"])}
}

func H05cli() {
	entries := h05cliEntries()
	check(entries != nil, "schema processes")
	typesVerbose = symBool()
	typesDebug = symBool()
	runs := 2
	if !inEngine() {
		runs = 60
	}
	var first string
	for i := 0; i < runs; i++ {
		var b bytes.Buffer
		doTypes(&b, entries)
		b.WriteString("\n-----\n")
		doTree(&b, entries)
		if i == 0 {
			first = b.String()
			check(len(first) > 200, "something was rendered")
		} else {
			check(b.String() == first, "the command-line renderings are reproducible")
		}
	}
	reach("rendered")
}
