package indent

// C20 - indented writing is chunk-independent and accounts bytes truthfully.
// Harnesses for pkg/indent/indent.go; see DESIGN.md section 3 (C20).

type h20Rec struct{ got []byte }

func (r *h20Rec) Write(b []byte) (int, error) {
	r.got = append(r.got, b...)
	return len(b), nil
}

type h20Err struct{}

func (h20Err) Error() string { return "short write" }

// h20Lim accepts `budget` bytes in total and then stops short with an error, as the
// io.Writer contract demands (n < len(p) => err != nil).
type h20Lim struct {
	budget int
	got    []byte
}

func (l *h20Lim) Write(b []byte) (int, error) {
	if len(l.got)+len(b) > l.budget {
		k := l.budget - len(l.got)
		l.got = append(l.got, b[:k]...)
		return k, h20Err{}
	}
	l.got = append(l.got, b...)
	return len(b), nil
}

func h20Bytes(n int) []byte {
	b := make([]byte, n)
	for i := range b {
		b[i] = symByte()
	}
	return b
}

// h20Model is the sentence of the property: the prefix at the start of every line, nothing
// added after the final line break. payload[i] tells whether output byte i is a caller byte.
func h20Model(prefix, text []byte) (out []byte, payload []bool) {
	for i, c := range text {
		if i == 0 || text[i-1] == '\n' {
			for _, p := range prefix {
				out = append(out, p)
				payload = append(payload, false)
			}
		}
		out = append(out, c)
		payload = append(payload, true)
	}
	return
}

func h20Same(a, b []byte, label string) {
	check(len(a) == len(b), label+" (length)")
	if len(a) == len(b) {
		for i := range a {
			check(a[i] == b[i], label)
		}
	}
}

// H20a: chunk independence. Symbolic prefix of p bytes, symbolic text of n bytes, three
// successive Write calls cut at symbolic positions c1 <= c2 (empty chunks included).
func H20a() {
	n, p := param("n"), param("p")
	prefix := h20Bytes(p)
	text := h20Bytes(n)
	c1 := symRange(0, n)
	c2 := symRange(0, n)
	assume(c1 <= c2)
	rec := &h20Rec{}
	w := NewWriter(rec, string(prefix))
	for _, ch := range [][]byte{text[:c1], text[c1:c2], text[c2:]} {
		k, err := w.Write(append([]byte{}, ch...))
		check(k == len(ch), "successful Write reports the full length of its argument")
		check(err == nil, "Write into an accepting writer returns no error")
	}
	want := Bytes(prefix, append([]byte{}, text...))
	model, _ := h20Model(prefix, text)
	reach("compared")
	h20Same(rec.got, want, "chunked output == Bytes(prefix, text)")
	h20Same(model, want, "Bytes == line model of the property")
	s := String(string(prefix), string(text))
	h20Same([]byte(s), want, "String == Bytes")
}

// H20e: an empty prefix returns the underlying writer itself.
func H20e() {
	rec := &h20Rec{}
	w := NewWriter(rec, "")
	text := h20Bytes(param("n"))
	k, err := w.Write(text)
	check(k == len(text) && err == nil, "empty prefix: write passes through")
	h20Same(rec.got, text, "empty prefix: output is the text")
	h20Same(Bytes(nil, text), text, "Bytes with empty prefix is the identity")
	reach("done")
}

// H20b: byte accounting under a short write. A first chunk is written successfully (so the
// writer's partial-line state is whatever the real code made it), then the underlying writer
// stops after `budget` bytes in total during the second Write.
func H20b() {
	n, p := param("n"), param("p")
	prefix := h20Bytes(p)
	text := h20Bytes(n)
	c1 := symRange(0, n)
	model, payload := h20Model(prefix, text)
	model1, _ := h20Model(prefix, text[:c1])
	out1 := len(model1)
	total := len(model)
	budget := symRange(0, (p+1)*n)
	assume(budget < total)
	assume(out1 <= budget) // the first chunk is accepted entirely
	lw := &h20Lim{budget: budget}
	w := NewWriter(lw, string(prefix))
	n1, err1 := w.Write(append([]byte{}, text[:c1]...))
	check(n1 == c1, "first chunk: full length reported")
	check(err1 == nil, "first chunk: no error")
	n2, err2 := w.Write(append([]byte{}, text[c1:]...))
	reach("short-write")
	check(err2 != nil, "short write reports an error")
	want := 0
	for i := out1; i < budget; i++ {
		if payload[i] {
			want++
		}
	}
	check(n2 >= 0, "count is never negative")
	check(n2 <= len(text)-c1, "count is never more than the argument")
	check(n2 == want, "count == number of caller bytes that reached the underlying writer")
	h20Same(lw.got, model[:budget], "bytes that reached the writer are a prefix of the full rendering")
}

// H20n: writers stacked on one another and used in turn. inner = NewWriter(rec, p1),
// outer = NewWriter(inner, p2); three Write calls, each to the inner or to the outer writer
// (symbolic), with symbolic texts. What the inner writer is handed - directly, or as the outer
// writer's rendering of its own chunks - must come out as the one-shot rendering of the
// concatenation: creating or using another writer on top of a writer does not change it.
func H20n() {
	n, p := param("n"), param("p")
	p1, p2 := h20Bytes(p), h20Bytes(p)
	text := h20Bytes(n)
	c1 := symRange(0, n)
	c2 := symRange(0, n)
	assume(c1 <= c2)
	rec := &h20Rec{}
	inner := NewWriter(rec, string(p1))
	outer := NewWriter(inner, string(p2))
	var outerText, innerText []byte
	for _, ch := range [][]byte{text[:c1], text[c1:c2], text[c2:]} {
		toOuter := symBool()
		var k int
		var err error
		if toOuter {
			before, _ := h20Model(p2, outerText)
			outerText = append(outerText, ch...)
			after, _ := h20Model(p2, outerText)
			innerText = append(innerText, after[len(before):]...)
			k, err = outer.Write(append([]byte{}, ch...))
		} else {
			innerText = append(innerText, ch...)
			k, err = inner.Write(append([]byte{}, ch...))
		}
		check(k == len(ch), "successful Write reports the full length of its argument (stacked writers)")
		check(err == nil, "Write into an accepting writer returns no error (stacked writers)")
	}
	want, _ := h20Model(p1, innerText)
	reach("compared")
	h20Same(rec.got, want, "stacked writers: output == one-shot rendering of everything the inner writer was handed")
}

// H20b3: as H20b with two fully accepted Write calls (cut at symbolic c1 <= c2) before the one
// during which the underlying writer stops short - the line state the failing call starts from
// was left by two calls, the first of which may have ended mid-line.
func H20b3() {
	n, p := param("n"), param("p")
	prefix := h20Bytes(p)
	text := h20Bytes(n)
	c1 := symRange(0, n)
	c2 := symRange(0, n)
	assume(c1 <= c2)
	model, payload := h20Model(prefix, text)
	model2, _ := h20Model(prefix, text[:c2])
	out2 := len(model2)
	total := len(model)
	budget := symRange(0, (p+1)*n)
	assume(budget < total)
	assume(out2 <= budget)
	lw := &h20Lim{budget: budget}
	w := NewWriter(lw, string(prefix))
	n1, err1 := w.Write(append([]byte{}, text[:c1]...))
	check(n1 == c1 && err1 == nil, "first chunk: full length, no error")
	n2, err2 := w.Write(append([]byte{}, text[c1:c2]...))
	check(n2 == c2-c1 && err2 == nil, "second chunk: full length, no error")
	n3, err3 := w.Write(append([]byte{}, text[c2:]...))
	reach("short-write")
	check(err3 != nil, "short write reports an error")
	want := 0
	for i := out2; i < budget; i++ {
		if payload[i] {
			want++
		}
	}
	check(n3 >= 0 && n3 <= len(text)-c2, "count is never negative and never more than the argument")
	check(n3 == want, "count == number of caller bytes that reached the underlying writer")
	h20Same(lw.got, model[:budget], "bytes that reached the writer are a prefix of the full rendering")
}
