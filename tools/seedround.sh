#!/bin/bash
# usage: seedround.sh <dirprefix> <prop> [<prop> ...]  e.g. seedround.sh /tmp/seed2 C02 C07
# confirms and tests every patch{i}.diff of each property's seed directory
pre=$1; shift
for p in "$@"; do
  d=$pre-$p
  for f in $d/patch*.diff; do
    i=$(basename $f .diff); i=${i#patch}
    /verif/tools/confirm_seed.sh $d $i 2>&1 | grep "^seed"
    echo "== $p seed $i"
    /verif/tools/seedtest.sh $p $f quick 2>&1 | cut -c1-330
  done
done
