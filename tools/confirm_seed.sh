#!/bin/bash
# usage: confirm_seed.sh <seed-dir> <i>   e.g. /tmp/seed-C15 2
# Confirms a candidate seeded change: (a) existing suite passes with it, (b) demo fails with it, (c) demo passes without it.
set -u
d=$1; i=$2
export GOFLAGS=-mod=mod GOPROXY=off GOSUMDB=off GOTOOLCHAIN=local
wt=$(mktemp -d /tmp/cs-XXXX); rmdir $wt
git -C /repo worktree add --detach $wt ${SEED_BASE:-HEAD} >/dev/null 2>&1 || { echo "worktree failed"; exit 3; }
pkgdir=$(head -3 $d/demo${i}_test.go | grep -m1 -oE "package dir: *[^ ]+" | sed 's/package dir: *//' || true)
[ -z "$pkgdir" ] && pkgdir=$(grep -m1 -oE "pkg/(yang|indent)" $d/demo${i}_test.go || true)
[ -z "$pkgdir" ] && pkgdir=$(grep -q "^package main" $d/demo${i}_test.go && echo "." || echo "pkg/yang")
cp $d/demo${i}_test.go $wt/$pkgdir/zz_seeddemo_test.go
cd $wt
if go test -vet=off -count=1 -run "TestSeedDemo$i\$" ./$pkgdir >/tmp/cs.out 2>&1; then c=pass; else c=FAIL; fi
rm $wt/$pkgdir/zz_seeddemo_test.go
if ! git apply $d/patch$i.diff; then echo "patch does not apply"; cd /; git -C /repo worktree remove --force $wt; exit 3; fi
if go test -vet=off -count=1 ./... >/tmp/cs.out 2>&1; then a=pass; else a=FAIL; fi
cp $d/demo${i}_test.go $wt/$pkgdir/zz_seeddemo_test.go
if go test -vet=off -count=1 -run "TestSeedDemo$i\$" ./$pkgdir >/tmp/cs.out 2>&1; then b=PASS-unexpected; else b=fails; fi
cd /
git -C /repo worktree remove --force $wt
echo "seed $d $i: suite_with_patch=$a demo_with_patch=$b demo_without_patch=$c pkgdir=$pkgdir"
