#!/usr/bin/env python3
"""store_seed.py <seed-dir> <prop> <i> <detected-by|MISSED> [comment]: files a confirmed seeded change under /verif/seeded/."""
import json, os, shutil, sys
d, prop, i, det = sys.argv[1:5]
comment = sys.argv[5] if len(sys.argv) > 5 else ""
oi = sys.argv[6] if len(sys.argv) > 6 else i  # index under which the seed is filed
out = f"/verif/seeded/{prop}-{oi}"
os.makedirs(out, exist_ok=True)
shutil.copy(f"{d}/patch{i}.diff", f"{out}/patch.diff")
shutil.copy(f"{d}/demo{i}_test.go", f"{out}/demo_test.go")
note = open(f"{d}/note{i}.md").read()
shutil.copy(f"{d}/note{i}.md", f"{out}/note.md")
meta = {
    "property": prop,
    "origin": "independent sub-agent given only the property text and a scratch worktree of /repo (nothing from /verif)",
    "needs_to_manifest": note.strip(),
    "confirmed_by": "tools/confirm_seed.sh: existing suite passes with the patch; demo test fails with the patch and passes on the unmodified tree (scratch worktree, removed afterwards)",
    "check_run": f"tools/seedtest.sh {prop} seeded/{prop}-{oi}/patch.diff quick (scratch worktree via VERIF_REPO)",
    "detected_by": det,
    "comment": comment,
}
json.dump(meta, open(f"{out}/meta.json", "w"), indent=1)
print("stored", out)
