#!/bin/bash
# usage: seedtest.sh <property> <patch.diff> [tier] [extra vcheck args]
# Applies a seeded change in a scratch worktree of /repo (outside /repo and /verif), runs the check
# for the property against it, prints the verdict lines and removes the worktree.
set -u
id=$1; patch=$2; tier=${3:-quick}; shift; shift; shift || true
wt=$(mktemp -d /tmp/st-$id-XXXX)
rmdir $wt
git -C /repo worktree add --detach $wt ${SEED_BASE:-HEAD} >/dev/null 2>&1 || { echo "worktree failed"; exit 3; }
if ! git -C $wt apply $patch; then echo "PATCH DOES NOT APPLY"; git -C /repo worktree remove --force $wt; exit 3; fi
export VERIF_REPO=$wt
export VERIF_ROOT=${VERIF_SNAP:-/verif}
cp $VERIF_ROOT/bin/vcheck $wt/.vcheck
out=$(mktemp /tmp/st-out-XXXX)
VERIF_EVIDENCE_DIR=$wt/.ev $wt/.vcheck run $id --tier $tier "$@" > $out 2>&1
rc=$?
grep -E "^(VIOLATION|INCONCLUSIVE|OK|KNOWN-FINDING|counterexample)" $out | cut -c1-400 | head -12
echo "exit=$rc"
rm -f $out
git -C /repo worktree remove --force $wt
exit $rc
