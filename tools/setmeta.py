#!/usr/bin/env python3
"""setmeta.py <seed-id> <detected_by> [comment]: update the outcome recorded in seeded/<seed-id>/meta.json"""
import json, sys
sid, det = sys.argv[1:3]
comment = sys.argv[3] if len(sys.argv) > 3 else None
p = f"/verif/seeded/{sid}/meta.json"
m = json.load(open(p))
m.setdefault("first_outcome", m.get("detected_by"))
m["detected_by"] = det
if comment is not None:
    m["comment"] = comment
json.dump(m, open(p, "w"), indent=1)
print(sid, "->", det)
