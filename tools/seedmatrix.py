#!/usr/bin/env python3
"""seedmatrix.py <outdir> [seed-id ...]: for every stored seed, run the harness named in its meta.json
(detected_by) against the seed (stored patch on the current HEAD); if that does not end in a VIOLATION,
run the whole quick check of the property. Writes <outdir>/<seed>.txt and prints one line per seed."""
import glob, json, os, re, subprocess, sys
out = sys.argv[1]; os.makedirs(out, exist_ok=True)
ids = sys.argv[2:] or sorted(os.path.basename(d.rstrip('/')) for d in glob.glob('/verif/seeded/*/'))
for sid in ids:
    d = f'/verif/seeded/{sid}/'
    m = json.load(open(d + 'meta.json'))
    det = m.get('detected_by', '')
    prop = sid.split('-')[0]
    other = re.search(r"\b(C\d\d)'s", det)
    if other:
        prop = other.group(1)
    hs = re.findall(r"H\d\d[A-Za-z0-9\-]*", det)
    res = ''
    tried = []
    for h in hs[:2]:
        r = subprocess.run(['/verif/tools/seedtest.sh', prop, d + 'patch.diff', 'quick', '--only', h], capture_output=True, text=True)
        tried.append(h)
        res = r.stdout + r.stderr
        if 'VIOLATION' in res:
            break
    if 'VIOLATION' not in res:
        r = subprocess.run(['/verif/tools/seedtest.sh', prop, d + 'patch.diff', 'quick'], capture_output=True, text=True)
        tried.append('ALL')
        res = r.stdout + r.stderr
    open(f'{out}/{sid}.txt', 'w').write(res)
    verdict = 'VIOLATION' if 'VIOLATION' in res else ('INCONCLUSIVE' if 'INCONCLUSIVE' in res else ('NOAPPLY' if 'DOES NOT APPLY' in res else 'MISSED'))
    hv = re.findall(r"harness=(\S+)", res)
    print(sid, prop, verdict, ','.join(sorted(set(hv))) or '-', 'tried=' + '/'.join(tried), flush=True)
