#!/bin/bash
# usage: seedround5.sh <prop> ...: confirm and test /tmp/seedR5-<prop>/patch{1,2}.diff against the current checks, file as seeded/<prop>-{9,10}
mkdir -p /tmp/r5
for p in "$@"; do
  d=/tmp/seedR5-$p
  for i in 1 2; do
    [ -f $d/patch$i.diff ] || continue
    grep -q "^exit=" /tmp/r5/$p-$i.txt 2>/dev/null && continue
    [ -f $d/note$i.md ] || echo "# Change $i - (no note written by the agent)" > $d/note$i.md
    c=$(/verif/tools/confirm_seed.sh $d $i 2>&1 | grep "^seed")
    echo "$c" > /tmp/r5/$p-$i.txt
    case "$c" in
      *"suite_with_patch=pass demo_with_patch=fails demo_without_patch=pass"*) ;;
      *) echo "NOT CONFIRMED" >> /tmp/r5/$p-$i.txt; continue;;
    esac
    /verif/tools/seedtest.sh $p $d/patch$i.diff quick >> /tmp/r5/$p-$i.txt 2>&1
    if grep -q "^VIOLATION" /tmp/r5/$p-$i.txt; then det="$(grep -o 'harness=[^ ]*' /tmp/r5/$p-$i.txt | sort -u | sed 's/harness=//' | tr '\n' ' ')(quick, first run)"; else det="MISSED (first run)"; fi
    python3 /verif/tools/store_seed.py $d $p $i "$det" "" $((i+8)) >> /tmp/r5/$p-$i.txt
  done
done
