#!/bin/bash
# usage: seedmatrix.sh <outdir> <seed-id> ...   runs the quick check of each seed's property against the seed (stored patch, current HEAD)
out=$1; shift; mkdir -p $out
for s in "$@"; do
  p=${s%-*}
  /verif/tools/seedtest.sh $p /verif/seeded/$s/patch.diff quick > $out/$s.txt 2>&1
done
