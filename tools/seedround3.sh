#!/bin/bash
# usage: seedround3.sh <prop> [<prop> ...]: confirm and test the round-3 candidates /tmp/seedR3-<prop>/patch{1,2,3}.diff,
# file confirmed ones as seeded/<prop>-{4,5,6} with the first outcome of the quick check.
mkdir -p /tmp/r3
for p in "$@"; do
  d=/tmp/seedR3-$p
  for i in 1 2 3; do
    [ -f $d/patch$i.diff ] || continue
    grep -q "^exit=" /tmp/r3/$p-$i.txt 2>/dev/null && continue
    [ -f $d/note$i.md ] || echo "# Change $i - (no note written by the agent)" > $d/note$i.md
    c=$(/verif/tools/confirm_seed.sh $d $i 2>&1 | grep "^seed")
    echo "$c" > /tmp/r3/$p-$i.txt
    case "$c" in
      *"suite_with_patch=pass demo_with_patch=fails demo_without_patch=pass"*) ;;
      *) echo "NOT CONFIRMED" >> /tmp/r3/$p-$i.txt; continue;;
    esac
    /verif/tools/seedtest.sh $p $d/patch$i.diff quick >> /tmp/r3/$p-$i.txt 2>&1
    if grep -q "^VIOLATION" /tmp/r3/$p-$i.txt; then det="caught (quick, first run)"; else det="MISSED (first run)"; fi
    python3 /verif/tools/store_seed.py $d $p $i "$det" "" $((i+3)) >> /tmp/r3/$p-$i.txt
  done
done
