#!/usr/bin/env python3
"""seedtable.py: markdown table of the stored seeds (round 3: ids 4..6, round 4: ids 7, 8) from their meta.json."""
import glob, json, os, re
props = sorted({os.path.basename(d.rstrip('/')).split('-')[0] for d in glob.glob('/verif/seeded/*/')})
print('| property | 4 | 5 | 6 | 7 | 8 | 9 | 10 |'); print('|----------|---|---|---|---|---|---|---|')
for p in props:
    cells = []
    for i in (4, 5, 6, 7, 8, 9, 10):
        f = f'/verif/seeded/{p}-{i}/meta.json'
        if not os.path.exists(f):
            cells.append('-'); continue
        m = json.load(open(f))
        first = m.get('first_outcome', m.get('detected_by', ''))
        det = m.get('detected_by', '')
        missed = 'MISSED' in first or 'INCONCLUSIVE' in (m.get('comment') or '')[:40]
        c = det
        if 'MISSED' in first:
            c += ' (first missed)'
        elif 'INCONCLUSIVE' in (m.get('comment') or ''):
            c += ' (first inconclusive)'
        cells.append(c)
    print(f'| {p} | ' + ' | '.join(cells) + ' |')
