#!/usr/bin/env python3
"""Regenerates /verif/MANIFEST.json from the table below (kept next to the checks it describes)."""
import json, subprocess, sys

GOENV = "GOFLAGS=-mod=mod GOPROXY=off GOSUMDB=off GOTOOLCHAIN=local"
TECH = "bounded symbolic execution of goyang's go/ssa form (gosym) with z3 deciding every branch and assertion; counterexamples replayed natively"
NOTE = ("trusted: go/ssa lowering (x/tools v0.29.0), gosym instruction semantics and intrinsics (DESIGN 2.3, listed per run in the evidence), z3 4.8.12, "
        "the harness-side oracle; holds only within the bounds echoed in evidence coverage.harnesses[].bound")

# id -> (design section, level text, extra note)
CLAIMED = {
 "C20": ("3 (C20)", "All prefixes of 2 bytes x all texts of <= 4 (thorough 6) bytes x all 3-chunkings x all short-write points are decided by the solver against a line model of the property; byte values are symbolic so each path covers a class of 256^k texts. H20n stacks two writers and uses them in turn: the recorder must receive the one-shot rendering of everything the inner writer was handed.", ""),
 "C15": ("3 (C15)", "Order/equality vs exact rational arithmetic for every pair of 64-bit numbers at every (fd1,fd2) in [0,18]^2, Int() exactness, constructors, print/parse round trip at every fd and digit count, and literal parsing for all digit strings of the stated shapes: full 64-bit domain, decided in linear integer arithmetic with explicit wrap-around. H15f drives the range-checked integer argument fraction-digits through Parse+Process with an arbitrary 64-bit literal.", "strconv.FormatUint is modelled by a digit-chain intrinsic"),
 "C14": ("3 (C14)", "Every member sequence of <= 3 (thorough 4) members - names over all equality patterns, explicit/implicit mix, explicit values ranging over all of int64 - is run through the real Set/SetNext and compared with the RFC 7950 9.6.4.2/9.7.4.2 rule stated over exact integers; name/value views checked to be inverse. H14u drives the use site through Parse+Process with the value literal spelled from an arbitrary 64-bit magnitude: the text-to-value conversion must not wrap. Member names range over letters and the zero-length name.", ""),
 "C10": ("3 (C10)", "parseChildRanges (split, min/max substitution, order test, sort, coalesce, subset test, validation) is executed on every restriction skeleton of <= 2 (thorough 3) parts against an arbitrary valid parent set, with all endpoints symbolic over the full 64-bit domain and a universally quantified member x: result set == written set, sorted/disjoint/coalesced, subset of the parent, and acceptance/rejection exactly as the property states; integers/lengths and decimal64 at every fraction-digits. H10b judges one text under two parents in succession (nothing may be remembered); H10syn runs the real number parsers on well-formed, malformed and leniently spelled tokens. H10u runs the use site (Type.resolve) through Parse+Process with the real parsers: every built-in integer type and length with one (thorough: both) bound an arbitrary 64-bit literal against bounds written from RFC 7950 9.2, derivation chains with a restriction present or absent per level, and decimal64 at every fraction-digits 1..18.", "number parsers stubbed inside H10a/H10b (contract decided by C15); Number.Less summarised; leniently spelled bounds are a KNOWN-FINDING"),
 "C02": ("3 (C02)", "yang.Parse (the whole of lex.go and parse.go, from SSA) is run on every ASCII text of <= 4 (thorough 5) bytes and on seven structured families (strings after 15 kinds of line prefix with every body over the bytes the reader distinguishes, token sequences with every boundary spelling, brace nestings, escapes in and outside pattern arguments, concatenation of pieces with a symbolic content byte, single-quoted/unquoted/comment bodies with CR and LF, continuation lines that begin with an escape); acceptance, the whole forest and every argument byte are compared with an independent RFC 7950 section 6 reader written in the harness.", "symbolic bytes assumed ASCII; the reference reader is part of the trusted base"),
 "C16": ("3 (C16)", "Statement positions are recomputed from the text by the reference reader for every accepted text of all C02 universes and for layouts of tabs, CR LF, multi-byte characters, comments and multi-line strings; for single-fault texts of 9 fault kinds after such layouts the first error line must name the offending token, backslash or opener. For 12 kinds of semantic fault (H16c) the leading file:line:col of every build/resolve error must be the start of the statement the property names, also when the file name holds formatting verbs.", "symbolic bytes assumed ASCII"),
 "C03": ("4 (C03)", "build() is driven directly for every (parent keyword, first child, second child) combination read from the library's own keyword tables (built by its init from the struct tags of the current source), with every mandatory substatement present or one omitted and argument bytes symbolic; the produced node is compared by a generic reflection walk with the statement tree (exactly once, right field, source order, extensions list, name, parent link, back reference); unknown-in-context, repeated single-valued, missing mandatory and non-module roots must be rejected, also as the second top-level statement of a text and right after other builds in the same process; same-keyword siblings stay in source order after the module was filed.", "keyword combinations are enumerated by solver-free symbolic choice; the solver's part is the argument bytes"),
 "C04": ("4 (C04)", "A tree walker (proper tree, parent links incl. rpc input/output, no shared node object, kind/Dir/ListAttr/Type consistency, choice children are cases, no unapplied augment, no recorded error anywhere) runs on every cleanly processed module set of the composition, grouping, composite and late-collision universes.", ""),
 "C06": ("4 (C06)", "For every grouping body of the stated universe, defined locally or in another module and used in two containers, a list and a third module: each instance equals the body written inline (processed by a fresh set), names bind in the defining scope, instances share no node, list attributes or child map, and a default replacement, list-attribute deviation and augment aimed at one instance (every subset, fresh set) leave all other instances identical; statements kept verbatim (if-feature) are per copy; a grouping of the same name in another module, a use below another module's augment and a prefix bound differently by a module and its submodule resolve as written.", ""),
 "C07": ("4 (C07)", "Every augment of the composition universe (two augmenting modules, chains across three modules, targets created by uses, submodule, choice/case, written and unwritten rpc input/output, notification) is present exactly once at its place with the augmenting module's namespace, nothing is left unapplied, and a second run in another load order gives the same dump; collisions (also of one grouping used by two augments), leaf, anydata, rpc-node and missing targets with symbolic names must be reported; chains of 4 (thorough 5) augments in one or two modules in every declaration order must be fully applied.", ""),
 "C08": ("4 (C08)", "Every single deviate statement (thorough: pairs, in written order) of every kind naming every property, on six kinds of target, with and without the ignore option, is compared with a reference application of RFC 7950 7.20.3 whose pre-state comes from the run without the deviating module; every untargeted node must be identical in both runs; the listed unappliable cases (five spellings of an unresolvable replacement type among them) must be reported; deviations may be written in a submodule of the deviating module; sequences of deviation statements (a deviation after the removal of its target) follow a sequential reference.", ""),
 "C11": ("4 (C11)", "Identities with symbolic names (every equality pattern) placed in a module, its submodule and an importing module, with bases spelled with and without prefixes (own, import, unknown): the Values of every identity must be exactly the transitive closure (Warshall over symbolic edge terms) once each, undefined bases and cycles must be reported, the identityref leaf must point at the named identity. H11dia: a diamond with equally named identities in three modules and a union of identityrefs to them under solver-chosen load and map iteration orders.", "order determinism of Values under map iteration is C05's subject"),
 "C12": ("4 (C12)", "ReadOnly, Namespace and InstantiatingModule of every node of every schema of the composition universe are compared with values computed from the source structure alone (nearest explicit config - on containers, leaves, lists and choices -, rpc output, module whose text placed the node); H12late: a module that joins the set after earlier lookups.", ""),
 "C17": ("4 (C17)", "On every schema of the composition universe and on the composite schema: for every (start, target) pair the absolute prefixed path (prefix taken from the start's defining module) and the relative path with .. steps must return the very node (pointer identity); every absolute path with one step replaced by a non-existent name - an unrelated one and the two near misses with a symbolic letter before/after the real name - must return nil, also when a .. step follows the non-existent one. H17rev: two revisions of the target module with the importer naming none, the older or the newer one.", ""),
 "C09": ("4 (C09)", "A reference lexical binder decides, as terms over symbolic typedef names at seven definition sites, which typedef a reference at five sites in four spellings must bind to; the resolved kind must be that site's, unresolvable references must be errors. A second harness checks units/default nearest-wins, pattern accumulation per leaf and nearest length over all 2^16 presence patterns of a three-level chain; a third all cycles/unknowns over three typedefs, a fourth the members of unions (written order, structurally identical members once; different bits types and enumerations are different), further ones the inheritance of enum/bit sets, fraction-digits with the scaled range, path and union members through 1..3 typedef levels (H09d), empty-string units/defaults (H09e), two references to one name from different scopes (H09two) and cycles through a mutually importing module (H09c).", ""),
 "C13": ("4 (C13)", "Revision binding for every triple of module headers with 0..2 revisions in every load order (bare name, name@rev, import with/without revision-date); the file chooser findInDir/findFile over a directory model with files drawn from 11 candidate names; include == inline for every partition of eight definitions into module and two submodules (direct and nested include), seen from the module and from an importer; revisions that arrive after a processing run (H13late).", "ioutil.ReadDir, os.Stat and os.Lstat are a harness directory model on the engine side; one known finding (mixed revisioned/unrevisioned name) is reported as KNOWN-FINDING"),
 "C18": ("4 (C18)", "Every sequence of 4 (thorough 5) operations over nine texts (three good, two with processing errors, four rejected in different ways) and process: after every process the error list and dump must equal the batch run of the accepted texts on a fresh set inside the same path. H18rev: revisions arriving late without any typedef involved; H18disk: modules that a processing run fetches itself from the search path, and files offered again after being repaired (file system = harness model behind the package's own seams).", "known traces of history are reported as KNOWN-FINDING"),
 "C05": ("4 (C05)", "Self-composition: the pipeline runs twice inside one path on fresh sets that differ in load order and in the iteration order of the library's maps, which the engine makes a symbolic choice (one perturbed range event per path, all permutations of maps with up to 4 entries, reverse or rotation for 5..12 entries, at any position); the outcomes (sorted duplicate-free error list, or the full dump) must be equal. H05sort decides the error sorter as a kernel (numeric line/column order, duplicates removed); H05cli renders the types and tree formatters twice under the same exploration.", "native replay cannot choose map orders: it repeats the run 150 times"),
 "C01": ("4 (C01)", "Every implicit run-time check of Go (nil dereference, bounds, nil-map write, type assertion, explicit panic) on every feasible path of the driven code is a solver-decided assertion, and depth/step budgets flag non-termination candidates that are confirmed natively: generic parsing of every ASCII text of 4 (thorough 5) bytes, the number/range parsers on every short string over their alphabet, a resolution universe of self- and mutually recursive groupings at any nesting, 14 kinds of augment target, uses of groupings defined nowhere or behind absent imports, include/import cycles and absent modules with read-back of everything returned, typedef cycles through unions and through a mutually importing module, and failed-load histories (rejected submodules, modules and non-module texts leaving typedefs behind). The property's 'all byte strings' is not reached: the claim is per family and bounded.", "wall-clock behaviour on large inputs is outside the technique"),
}

NOT_APPLICABLE = {
 "C19": "quantifies over goroutine interleavings and data races (Go memory model); the SSA symbolic executor runs one goroutine and has no interleaving semantics; no bounded model checker for concurrent Go exists in this image (DESIGN.md section 6)",
}
PENDING = "check not registered yet in this revision of /verif (work in progress, see DESIGN.md); not claimed"

def main():
    ids = [json.loads(l)["id"] for l in open("/verif/properties.jsonl")]
    fixes = subprocess.check_output(["git", "-C", "/repo", "log", "--format=%h", "--grep=^fix:", "c98eb66..HEAD"]).decode().split()
    checks = []
    for i in ids:
        if i not in CLAIMED:
            continue
        sec, text, extra = CLAIMED[i]
        checks.append({
            "property_id": i,
            "quick_cmd": f"/verif/bin/vcheck run {i} --tier quick",
            "thorough_cmd": f"/verif/bin/vcheck run {i} --tier thorough",
            "evidence_file": f"/verif/evidence/{i}.json",
            "replay_cmd_template": "/verif/bin/vcheck replay {path}",
            "engine": "gosym",
            "level_claimed": {"category": "model_checking", "text": text, "design_ref": "DESIGN.md section " + sec},
            "level_note": NOTE + ("; " + extra if extra else ""),
            "technique": TECH,
        })
    na = []
    for i in ids:
        if i in CLAIMED:
            continue
        na.append({"property_id": i, "reason": NOT_APPLICABLE.get(i, PENDING)})
    m = {
        "version": 1,
        "setup_cmd": f"cd /verif/engine && {GOENV} go build -o /verif/bin/vcheck ./cmd/vcheck",
        "hooks": {
            "guard": "verif",
            "enable": "none needed: harnesses are injected with go/packages overlays (engine) and `go test -overlay` (native replay); /repo carries no instrumentation",
            "baseline_off_cmd": "cd /repo && go test -mod=mod -json -vet=off -count=1 -timeout 25m ./...",
            "source_commits": [],
            "add_only": True,
        },
        "engines": [{"name": "gosym", "path": "/verif/engine", "serves_properties": sorted(CLAIMED),
                     "kind_free_text": "own go/ssa symbolic executor (decision-prefix DFS over 16 worker processes, one z3 -in each), harnesses injected by overlay, counterexamples replayed natively with go test -overlay"}],
        "checks": checks,
        "not_applicable": na,
        "notes": "Genuine defects repaired in /repo by unguarded 'fix:' commits: " + " ".join(fixes) + " (listed as fixed in /verif/known_findings.json). Exit codes: 0 pass, 1 VIOLATION (natively reproduced), 2 INCONCLUSIVE (budget, unknown, unsupported instruction, failed validation).",
    }
    json.dump(m, open("/verif/MANIFEST.json", "w"), indent=1)
    print("checks:", [c["property_id"] for c in checks])

main()
